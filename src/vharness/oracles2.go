package vharness

import (
	"fmt"
	"strings"
)

// ---------------------------------------------------------------- C17

func (ix *Index) begunOn(q int, before int) int {
	n := 0
	for _, m := range ix.JobNums {
		j := ix.Jobs[m]
		if (q < 0 || j.Q == q) && (j.Pre || (j.Add.Call >= 0 && j.Add.Call < before)) {
			n++
		}
	}
	return n
}

func (ix *Index) hasDist() bool {
	for _, k := range ix.QKinds {
		if k == "dist" || k == "distprio" {
			return true
		}
	}
	return false
}

// pendingBounds returns the model's bounds for queue q's pending count at a quiescent position p.
func (ix *Index) pendingBounds(q, p int) (lo, hi int) {
	for _, m := range ix.JobNums {
		j := ix.Jobs[m]
		if j.Q != q || j.firstEnter(ix.N) < p {
			continue
		}
		if !j.Pre && (j.Add.Call < 0 || j.Add.Call > p) {
			continue
		}
		if j.Accepted == 0 {
			continue
		}
		certain := j.Accepted == 1 && (j.Pre || (j.Add.Ret >= 0 && j.Add.Ret < p)) && !ix.optional(j, p)
		if certain {
			lo++
		}
		hi++
	}
	return
}

func oC17(ix *Index) []Violation {
	var out []Violation
	neg := func(what string, val int64, pos int) {
		if val < 0 {
			out = append(out, v("C17", "negative", "%s returned %d at %d", what, val, pos))
		}
	}
	for _, c := range ix.ByOp["qpending"] {
		if !c.Returned() {
			continue
		}
		neg(fmt.Sprintf("queue %d NumPending", c.Q), c.RetEv.I, c.Ret)
		if b := ix.begunOn(c.Q, c.Ret); int(c.RetEv.I) > b {
			out = append(out, v("C17", "pending-above-accepted", "queue %d NumPending=%d at [%d,%d] but only %d submissions to it had begun", c.Q, c.RetEv.I, c.Call, c.Ret, b))
		}
	}
	for _, c := range ix.ByOp["npend"] {
		if !c.Returned() {
			continue
		}
		neg("worker NumPending", c.RetEv.I, c.Ret)
		if b := ix.begunOn(-1, c.Ret); int(c.RetEv.I) > b {
			out = append(out, v("C17", "pending-above-accepted", "worker NumPending=%d at [%d,%d] but only %d submissions had begun", c.RetEv.I, c.Call, c.Ret, b))
		}
	}
	for _, c := range ix.ByOp["nproc"] {
		if !c.Returned() {
			continue
		}
		neg("NumProcessing", c.RetEv.I, c.Ret)
		if lim := ix.maxLimit(0, c.Ret); int(c.RetEv.I) > lim {
			out = append(out, v("C17", "processing-above-limit", "NumProcessing=%d at %d, largest limit so far %d", c.RetEv.I, c.Ret, lim))
		}
	}
	var prev *CallRec
	ms := ix.ByOp["metrics"]
	for i := range ms {
		c := &ms[i]
		if !c.Returned() || c.RetEv.Sn == nil {
			continue
		}
		sn := c.RetEv.Sn
		exits := 0
		for p := 0; p < c.Ret; p++ {
			if ix.H[p].K == "exit" && ix.H[p].W == 0 {
				exits++
			}
		}
		if int(sn.Completed) > exits || int(sn.Success+sn.Failed) > exits {
			out = append(out, v("C17", "counter-above-finished", "Completed=%d Successful=%d Failed=%d at %d but only %d invocations had finished", sn.Completed, sn.Success, sn.Failed, c.Ret, exits))
		}
		if !ix.hasDist() {
			begun := ix.begunOn(-1, c.Ret) - len(ix.C.Cfg.PreItems)
			acc := 0
			for _, m := range ix.JobNums {
				j := ix.Jobs[m]
				if !j.Pre && j.Accepted == 1 && j.Add.Ret >= 0 && j.Add.Ret < c.Call {
					acc++
				}
			}
			if int(sn.Submitted) > begun || int(sn.Submitted) < acc {
				out = append(out, v("C17", "submitted-bounds", "Submitted=%d at [%d,%d], but %d submissions had been accepted before and %d had begun", sn.Submitted, c.Call, c.Ret, acc, begun))
			}
		}
		if prev != nil && prev.Ret < c.Call {
			ps := prev.RetEv.Sn
			if sn.Submitted < ps.Submitted || sn.Completed < ps.Completed || sn.Success < ps.Success || sn.Failed < ps.Failed {
				out = append(out, v("C17", "counter-decreased", "metrics went down between %d and %d: %+v -> %+v", prev.Ret, c.Call, *ps, *sn))
			}
		}
		prev = c
	}
	// exactness at quiescent points
	check := func(p int, sn *Snap, what string) {
		if sn == nil || !sn.OKSnap {
			return
		}
		// calls in progress make the model uncertain: only introspection-free quiescent points count
		for _, c := range ix.Calls {
			if c.Call < p && c.end(ix.N) > p {
				switch c.Op {
				case "add", "addall", "purge", "close", "bind", "restart", "stop", "waitstop":
					return
				}
			}
		}
		sum := 0
		for q, got := range sn.QPending {
			sum += got
			if got < 0 {
				out = append(out, v("C17", "negative", "queue %d NumPending=%d at %s %d", q, got, what, p))
			}
			lo, hi := ix.pendingBounds(q, p)
			if got < lo || got > hi {
				out = append(out, v("C17", "pending-inexact", "at %s %d queue %d (%s) reports %d pending; accepted and neither dispatched nor purged: between %d and %d", what, p, q, ix.QKinds[q], got, lo, hi))
			}
		}
		if sn.WPending != sum {
			out = append(out, v("C17", "worker-pending-sum", "at %s %d worker NumPending=%d but its queues report %v (sum %d)", what, p, sn.WPending, sn.QPending, sum))
		}
		if sn.Proc != sn.InFlight {
			out = append(out, v("C17", "processing-inexact", "at %s %d NumProcessing=%d but %d invocations are in progress", what, p, sn.Proc, sn.InFlight))
		}
		exits := 0
		for i := 0; i < p; i++ {
			if ix.H[i].K == "exit" && ix.H[i].W == 0 {
				exits++
			}
		}
		if int(sn.Completed) != exits || sn.Success+sn.Failed != sn.Completed {
			out = append(out, v("C17", "completed-inexact", "at %s %d Completed=%d Successful=%d Failed=%d, finished invocations %d", what, p, sn.Completed, sn.Success, sn.Failed, exits))
		}
		if !ix.hasDist() {
			lo, hi := 0, 0
			for _, m := range ix.JobNums {
				j := ix.Jobs[m]
				if j.Pre || j.Add.Call < 0 || j.Add.Call > p {
					continue
				}
				if j.Accepted == 1 {
					lo++
				}
				if j.Accepted != 0 {
					hi++
				}
			}
			if int(sn.Submitted) < lo || int(sn.Submitted) > hi {
				out = append(out, v("C17", "submitted-inexact", "at %s %d Submitted=%d, accepted submissions between %d and %d", what, p, sn.Submitted, lo, hi))
			}
		}
	}
	for _, p := range ix.Quiesc {
		check(p, ix.H[p].Sn, "quiescent point")
	}
	for _, s := range ix.snaps() {
		if ix.H[s.pos].Op == "settle" {
			check(s.pos, s.sn, "settled point")
		}
	}
	if ix.Completed {
		check(ix.FinalPos, ix.Final, "final point")
	}
	return dedup(out)
}

// ---------------------------------------------------------------- C18

func (ix *Index) minIdle(limit int) int {
	r := ix.C.Cfg.Ratio
	if r > 100 {
		r = 100
	}
	if r <= 0 {
		// WithMinIdleWorkerRatio not used: percentage 0
		return 1
	}
	m := limit * r / 100
	if m < 1 {
		m = 1
	}
	return m
}

type ohead struct{ pos, n, cycles int }

func oC18(ix *Index) []Violation {
	var out []Violation
	cfg := ix.C.Cfg
	var overheads []ohead
	check := func(p int, sn *Snap, what string) {
		if sn == nil || !sn.OKSnap || ix.lifeInProgress(p) {
			return
		}
		lim := ix.maxLimit(0, p)
		if sn.Idle+sn.Proc > lim {
			out = append(out, v("C18", "too-many-workers", "at %s %d: %d idle + %d processing worker goroutines, largest concurrency configured so far %d", what, p, sn.Idle, sn.Proc, lim))
		}
		if sn.Status == "Running" && ix.modelState(p) == "Running" && sn.InFlight == 0 && sn.Proc == 0 && sn.Idle < 1 {
			out = append(out, v("C18", "no-idle-worker", "at %s %d the worker is Running with nothing in flight and %d idle workers", what, p, sn.Idle))
		}
		if (sn.Status == "Running" || sn.Status == "Paused") && ix.modelState(p) == sn.Status && sn.Proc == sn.InFlight {
			// goroutines the worker runs besides its pool (event loop, remover, context listener ...): how many
			// there are is the implementation's business, but they must not pile up over Stop/Restart cycles
			overhead := sn.LiveLib - sn.Idle - sn.InFlight
			cycles := 0
			for _, op := range []string{"restart", "stop", "waitstop"} {
				for _, c := range ix.ByOp[op] {
					if c.Returned() && c.Ret < p {
						cycles++
					}
				}
			}
			ctxGone := 0
			if cfg.Ctx && ix.ctxCancelledBefore(p) {
				ctxGone = 1
			}
			overheads = append(overheads, ohead{p, overhead + ctxGone, cycles})
		}
		if cfg.ExpiryUs > 0 && sn.Status == "Running" && ix.modelState(p) == "Running" {
			// last activity
			last := int64(0)
			for i := p - 1; i >= 0; i-- {
				k := ix.H[i].K
				if k == "enter" || k == "exit" || (k == "ret" && lifecycleOps[ix.H[i].Op]) {
					last = ix.H[i].T
					break
				}
			}
			if sn.Clock-last >= 3*int64(cfg.ExpiryUs)*1000 && sn.InFlight == 0 {
				if want := ix.minIdle(ix.curLimit(p)); sn.Idle > want {
					out = append(out, v("C18", "not-trimmed", "at %s %d: idle for %dus (expiry %dus) but %d idle workers remain, configured minimum %d", what, p, (sn.Clock-last)/1000, cfg.ExpiryUs, sn.Idle, want))
				}
			}
		}
	}
	for _, p := range ix.Quiesc {
		check(p, ix.H[p].Sn, "quiescent point")
	}
	for _, s := range ix.snaps() {
		if ix.H[s.pos].Op == "settle" {
			check(s.pos, s.sn, "settled point")
		}
	}
	if ix.Completed {
		check(ix.FinalPos, ix.Final, "final point")
	}
	for _, a := range overheads {
		for _, b := range overheads {
			if b.cycles > a.cycles && b.n > a.n {
				out = append(out, v("C18", "goroutines-accumulate", "at rest the worker ran %d goroutines besides its pool workers after %d Stop/Restart calls (position %d) and %d after %d calls (position %d)", a.n, a.cycles, a.pos, b.n, b.cycles, b.pos))
			}
		}
	}
	if ix.Stopped != nil && ix.Stopped.LiveLib != 0 {
		out = append(out, v("C18", "leak-after-stop", "after Stop returned and everything settled %d goroutines started by the library are still alive: %s", ix.Stopped.LiveLib, ix.StoppedEv.S))
	}
	return dedup(out)
}

// ---------------------------------------------------------------- C13

func oC13(ix *Index) []Violation {
	var out []Violation
	out = append(out, oDeadlock("C13")(ix)...)
	for _, n := range ix.JobNums {
		j := ix.Jobs[n]
		if len(j.Enters) > 1 {
			ws := []int{}
			for _, ev := range j.EnterEvs {
				ws = append(ws, ev.W)
			}
			out = append(out, v("C13", "twice", "item %d was executed %d times (consumers %v)", n, len(j.Enters), ws))
		}
	}
	if ix.Completed && ix.Final != nil && !ix.R.Rep.Deadlock {
		for _, n := range ix.JobNums {
			j := ix.Jobs[n]
			if j.Accepted == 1 && len(j.Exits) == 0 && !ix.optional(j, ix.N) {
				out = append(out, v("C13", "stranded", "item %d was placed on the shared adapter but no consumer executed it; final %+v", n, *ix.Final))
			}
		}
		enq := uint64(0)
		for _, ev := range ix.Ad {
			if ev.Op == "Enqueue" && ev.OK {
				enq++
			}
		}
		if ix.Final.OKSnap {
			if ix.Final.Submitted != enq {
				out = append(out, v("C13", "submitted", "consumer 0 counts %d submissions, %d notifications were delivered", ix.Final.Submitted, enq))
			}
			for i, cs := range ix.Final.Cons {
				if cs.Submitted != enq {
					out = append(out, v("C13", "submitted", "consumer %d counts %d submissions, %d notifications were delivered", i+1, cs.Submitted, enq))
				}
			}
		}
	}
	return out
}

// ---------------------------------------------------------------- C15

// oC15 checks every dispatch against the strategy's rule on model populations (the accepted jobs
// of each queue that have not started, in dispatch order).
//
// Jobs cancelled while pending stay in their queue until the dispatcher takes and drops them. The
// property does not say whether such a drop uses up the queue's round-robin turn, nor when it
// happens, so the round-robin clause is liberal about them: the cursor may stand right after the
// previously served queue or right after any queue that held a cancelled pending job, and a queue
// counts as non-empty only through its live jobs. What is never allowed is to pass over a queue
// that has a live pending job from every possible cursor position.
func oC15(ix *Index) []Violation {
	var out []Violation
	nqAll := len(ix.QKinds)
	model := make([][]*JobRec, nqAll)
	inModel := map[int]bool{}
	prevQ := -1
	cancelled := func(j *JobRec, pos int) bool {
		for _, cl := range j.Closes {
			if cl.Returned() && cl.RetEv.OK && cl.Ret < pos {
				return true
			}
		}
		return false
	}
	rr := 0
	strat := ix.C.Cfg.Strategy
	names := []string{"round-robin", "max-len", "min-len"}
	sync := func(pos int) {
		for _, n := range ix.JobNums {
			j := ix.Jobs[n]
			if inModel[n] || j.Q < 0 || j.Q >= nqAll || j.Accepted != 1 || j.It == nil {
				continue
			}
			if !j.Pre && (j.Add.Ret < 0 || j.Add.Ret >= pos) {
				continue
			}
			inModel[n] = true
			l := model[j.Q]
			i := len(l)
			for i > 0 && ix.orderedBefore(j, l[i-1]) {
				i--
			}
			l = append(l, nil)
			copy(l[i+1:], l[i:])
			l[i] = j
			model[j.Q] = l
		}
	}
	for pos, ev := range ix.H {
		if ev.K != "enter" || ev.W != 0 {
			continue
		}
		for _, c := range ix.Calls {
			if (c.Op == "add" || c.Op == "addall" || c.Op == "close" || c.Op == "purge") && c.Call < pos && c.end(ix.N) > pos {
				return out // a submission or cancellation is in progress: the model does not know the queues
			}
		}
		a := ix.Jobs[ev.J]
		if !(a.Pre || (a.Add.Ret >= 0 && a.Add.Ret < pos)) {
			return out // dispatched before its Add returned
		}
		// queues bound so far (a queue bound later joins the end of the binding order; the cursor stays)
		nq := len(ix.C.Cfg.Queues)
		for _, b := range ix.ByOp["bind"] {
			if b.Call < pos && b.end(ix.N) > pos {
				return out // a bind is in progress
			}
			if b.Returned() && b.Ret < pos {
				nq++
			}
		}
		if nq > nqAll {
			nq = nqAll
		}
		if a.Q >= nq {
			out = append(out, v("C15", "phantom", "dispatch at %d started job %d of queue %d, which is not bound yet", pos, a.N, a.Q))
			return out
		}
		sync(pos)
		live := make([]int, nq)  // pending jobs that can still run
		ghost := make([]bool, nq) // the queue holds a cancelled pending job
		all := make([]int, nq)
		for q := range model[:nq] {
			for _, j := range model[q] {
				all[q]++
				if cancelled(j, pos) {
					ghost[q] = true
				} else {
					live[q]++
				}
			}
		}
		// the started job is the first live job of its queue
		var head *JobRec
		for _, j := range model[a.Q] {
			if !cancelled(j, pos) {
				head = j
				break
			}
		}
		if head != a {
			if head == nil {
				out = append(out, v("C15", "phantom", "dispatch at %d started job %d, which the model does not hold as pending in queue %d", pos, a.N, a.Q))
			} else {
				out = append(out, v("C15", "not-head", "dispatch at %d took job %d from queue %d although job %d is ahead of it", pos, a.N, a.Q, head.N))
			}
			return out
		}
		switch strat {
		case 0:
			starts := map[int]bool{rr % nq: true}
			if prevQ >= 0 && prevQ+1 < nq {
				starts[prevQ+1] = true // strictly cyclic order when a queue was bound after the cursor wrapped
			}
			for q := range ghost {
				if ghost[q] {
					starts[(q+1)%nq] = true
				}
			}
			ok := false
			var cands []int
			for s0 := range starts {
				for k := 0; k < nq; k++ {
					if q := (s0 + k) % nq; live[q] > 0 {
						cands = append(cands, q)
						if q == a.Q {
							ok = true
						}
						break
					}
				}
			}
			if !ok {
				out = append(out, v("C15", "round-robin", "dispatch at %d took queue %d; with live pending jobs per queue %v (queues holding cancelled pending jobs: %v), binding order %v and the previous dispatch from queue %d, round robin must take one of %v", pos, a.Q, live, ghost, ix.QKinds, (rr+nq-1)%nq, cands))
				return out
			}
			rr = (a.Q + 1) % nq
			prevQ = a.Q
		default:
			// lengths include cancelled pending jobs only if the queue still holds them, which is not
			// observable: a queue's length lies between its live and its total count
			for q := range live {
				if strat == 1 && live[q] > all[a.Q] {
					out = append(out, v("C15", names[strat], "dispatch at %d took queue %d with at most %d pending although queue %d has at least %d (live %v, total %v)", pos, a.Q, all[a.Q], q, live[q], live, all))
					return out
				}
				if strat == 2 && all[q] > 0 && live[q] > 0 && all[q] < live[a.Q] {
					out = append(out, v("C15", names[strat], "dispatch at %d took queue %d with at least %d pending although queue %d has only %d (live %v, total %v)", pos, a.Q, live[a.Q], q, all[q], live, all))
					return out
				}
			}
		}
		// the started job and the cancelled jobs ahead of it have left the queue
		l := model[a.Q]
		for i, j := range l {
			if j == a {
				model[a.Q] = append([]*JobRec(nil), l[i+1:]...)
				break
			}
		}
	}
	// "no queue with pending jobs is starved": at rest, with the worker Running, every accepted job
	// that was not cancelled has been dispatched
	if ix.finalRunning() && !ix.R.Rep.Deadlock {
		for _, n := range ix.JobNums {
			j := ix.Jobs[n]
			if j.Accepted == 1 && len(j.Enters) == 0 && !ix.optional(j, ix.N) {
				out = append(out, v("C15", "starved", "job %d of queue %d (%s) was never dispatched although the worker is Running and at rest (strategy %s, final %+v)", n, j.Q, ix.QKinds[j.Q], names[strat], *ix.Final))
				break
			}
		}
	}
	return out
}

// renamed reports another property's clause under this property's name.
func renamed(prop, prefix string, o oracleFn) oracleFn {
	return func(ix *Index) []Violation {
		vs := o(ix)
		for i := range vs {
			vs[i].Prop = prop
			vs[i].Oracle = prefix + vs[i].Oracle
		}
		return vs
	}
}

// oC18Tune: "TunePool changes how many jobs can run simultaneously ... without losing or duplicating
// jobs" - judged on programs in which a TunePool call succeeded.
func oC18Tune(ix *Index) []Violation {
	tuned := false
	for _, c := range ix.ByOp["tune"] {
		if c.Returned() && c.RetEv.E == "" {
			tuned = true
		}
	}
	if !tuned {
		return nil
	}
	var out []Violation
	for _, n := range ix.JobNums {
		j := ix.Jobs[n]
		if len(j.Enters) > 1 {
			out = append(out, v("C18", "tune-duplicated-job", "job %d entered %d times in a program with a successful TunePool: %s", n, len(j.Enters), ix.describe(j.Enters...)))
		}
	}
	if ix.finalRunning() && !ix.R.Rep.Deadlock {
		for _, n := range ix.JobNums {
			j := ix.Jobs[n]
			if j.Accepted == 1 && len(j.Enters) == 0 && !ix.optional(j, ix.N) {
				out = append(out, v("C18", "tune-lost-job", "accepted job %d never ran although the worker is Running and at rest, after a successful TunePool; final=%+v", n, *ix.Final))
			}
		}
	}
	// "changes how many jobs can run simultaneously to the new value, up": a pending job next to a
	// free slot on a stably Running, settled worker will never be dispatched
	out = append(out, lostWakeups(ix, "C18")...)
	if ix.R.Rep.Deadlock && len(ix.Quiesc) > 0 {
		// nothing can run any more: if the library still counts a job as processing while no
		// invocation is in progress and none is parked on a gate, a dispatched job was lost in the pool
		if sn := ix.H[ix.Quiesc[len(ix.Quiesc)-1]].Sn; sn != nil && sn.InFlight == 0 && sn.Gates == 0 && sn.Proc > 0 {
			out = append(out, v("C18", "tune-lost-job", "deadlock after a successful TunePool with NumProcessing=%d while no invocation is in progress: a dispatched job never reached a pool worker; blocked: %v", sn.Proc, ix.R.Rep.Blocked))
		}
	}
	return out
}

// oC08StuckWait: "NumPending ... reaches 0 exactly when its Wait returns" - a batch whose items have all
// finished (or were rejected) has NumPending 0, so a caller still blocked in its Wait when nothing can
// run any more contradicts the clause.
func oC08StuckWait(ix *Index) []Violation {
	if !ix.R.Rep.Deadlock {
		return nil
	}
	var out []Violation
	for _, c := range ix.blockedCalls() {
		if c.Op != "gwait" {
			continue
		}
		g := ix.Groups[c.G]
		if g == nil {
			continue
		}
		all := true
		for _, n := range g.Items {
			if j := ix.Jobs[n]; !(len(j.Exits) > 0 || j.Accepted == 0) {
				all = false
			}
		}
		if all {
			out = append(out, v("C08", "wait-blocked-at-zero-pending", "client %d is blocked forever in batch %d Wait although every item has finished or was rejected (NumPending is 0)", c.C, c.G))
		}
	}
	return out
}

// oC09Resumed: "jobs accepted while the worker is paused or stopped ... are all processed ... after Resume
// or Restart": at rest, with the worker Running again, no accepted job is left behind, and no pending
// job sits next to a free slot at a settled point.
func oC09Resumed(ix *Index) []Violation {
	var out []Violation
	if ix.finalRunning() && !ix.R.Rep.Deadlock {
		for _, n := range ix.JobNums {
			j := ix.Jobs[n]
			if j.Accepted == 1 && len(j.Enters) == 0 && !ix.optional(j, ix.N) {
				out = append(out, v("C09", "left-behind-after-resume", "accepted job %d never ran although the worker is Running again and at rest; final=%+v", n, *ix.Final))
				break
			}
		}
	}
	out = append(out, lostWakeups(ix, "C09")...)
	return out
}

// completionBlocked: nothing can run any more, a client waits on a handle, and a goroutine started by
// the library sits in a channel send: an item's outcome could not be delivered, so the item (and
// everything behind it on that pool worker) never finishes and the waiter never returns.
func completionBlocked(prop string) oracleFn {
	return func(ix *Index) []Violation {
		if !ix.R.Rep.Deadlock {
			return nil
		}
		waiting := ""
		for _, c := range ix.blockedCalls() {
			switch c.Op {
			case "gwait", "wait", "result", "err":
				waiting = fmt.Sprintf("client %d in %s", c.C, c.Op)
			}
		}
		if waiting == "" {
			return nil
		}
		for _, b := range ix.R.Rep.Blocked {
			if strings.Contains(b, "blocked on chan send") && !strings.Contains(b, "[client") && !strings.Contains(b, "[root]") && !strings.Contains(b, "[errs-reader]") && !strings.Contains(b, "[notifier]") {
				return []Violation{v(prop, "completion-blocked", "%s is blocked forever while a library goroutine is stuck delivering an outcome: %s", waiting, b)}
			}
		}
		return nil
	}
}
