package vharness

import "github.com/goptics/varmq/vrt"

// RW is a seeded random-walk chooser: at each point, with probability 1/den
// switch to a uniformly chosen enabled goroutine; advance clock w.p. 1/clockDen.
type RW struct {
	state    uint64
	Den      uint64
	ClockDen uint64
}

func NewRW(seed uint64, den, clockDen uint64) *RW { return &RW{state: seed*2654435761 + 1, Den: den, ClockDen: clockDen} }

func (r *RW) next() uint64 {
	r.state += 0x9e3779b97f4a7c15
	z := r.state
	z = (z ^ (z >> 30)) * 0xbf58476d1ce4e5b9
	z = (z ^ (z >> 27)) * 0x94d049bb133111eb
	return z ^ (z >> 31)
}
func (r *RW) Spawned(g *vrt.G) {}
func (r *RW) Pick(step int, en []*vrt.G, me *vrt.G, clockOK bool) (*vrt.G, bool) {
	if clockOK && r.ClockDen > 0 && r.next()%r.ClockDen == 0 {
		return nil, true
	}
	if me != nil && r.next()%r.Den != 0 {
		return me, false
	}
	if len(en) == 0 {
		return nil, false
	}
	return en[r.next()%uint64(len(en))], false
}
