package vharness

import (
	"fmt"
	"sort"

	"github.com/goptics/varmq"
	"github.com/goptics/varmq/vrt"
)

// ---------------------------------------------------------------------------
// recording adapter: the harness's implementation of the persistent /
// distributed adapter interfaces. Every method is one atomic step at a
// scheduling point and is logged to the episode history.

type adItem struct {
	val  any
	prio int
	seq  int
}

type recCore struct {
	env      *Env
	idx      int // queue index in the episode
	prioMode bool
	pending  []adItem
	unacked  map[string]adItem
	ackOrder []string
	acked    map[string]bool
	seq      int
	ackSeq   int
	subs     []func(string)
	closed   bool
	calls    int
	mcalls   map[string]int
	faults   map[string]map[int]bool
	lost     []adItem // removed by a plain Dequeue (no ack protocol)
}

func newRecCore(env *Env, idx int, prio bool) *recCore {
	return &recCore{env: env, idx: idx, prioMode: prio, unacked: map[string]adItem{}, acked: map[string]bool{}, mcalls: map[string]int{}, faults: map[string]map[int]bool{}}
}

func (a *recCore) enter(method string) (fault bool) {
	vrt.Point("adapter." + method)
	a.calls++
	a.env.adCalls++
	a.mcalls[method]++
	if f := a.faults[method]; f != nil && f[a.mcalls[method]] {
		return true
	}
	return false
}

func (a *recCore) Len() int {
	vrt.Point("adapter.Len")
	return len(a.pending)
}

func (a *recCore) enqueue(item any, prio int) bool {
	if a.enter("Enqueue") {
		a.env.log(Ev{K: "ad", C: -1, Op: "Enqueue", Q: a.idx, J: jobOfItem(item), G: -1, E: "fault"})
		return false
	}
	if a.closed {
		a.env.log(Ev{K: "ad", C: -1, Op: "Enqueue", Q: a.idx, J: jobOfItem(item), G: -1, E: "closed"})
		return false
	}
	a.seq++
	it := adItem{val: item, prio: prio, seq: a.seq}
	a.pending = append(a.pending, it)
	if a.prioMode {
		sort.SliceStable(a.pending, func(i, j int) bool { return a.pending[i].prio < a.pending[j].prio })
	}
	a.env.log(Ev{K: "ad", C: -1, Op: "Enqueue", Q: a.idx, J: jobOfItem(item), G: -1, OK: true, I: int64(prio)})
	a.notify()
	return true
}

func (a *recCore) notify() {
	for _, s := range a.subs {
		s := s
		if a.env.c.Cfg.AsyncNotify {
			vrt.Go("notifier", false, func() { s("enqueued") })
		} else {
			s("enqueued")
		}
	}
}

func (a *recCore) Dequeue() (any, bool) {
	if a.enter("Dequeue") || len(a.pending) == 0 {
		a.env.log(Ev{K: "ad", C: -1, Op: "Dequeue", Q: a.idx, J: -1, G: -1})
		return nil, false
	}
	it := a.pending[0]
	a.pending = a.pending[1:]
	a.lost = append(a.lost, it)
	a.env.log(Ev{K: "ad", C: -1, Op: "Dequeue", Q: a.idx, J: jobOfItem(it.val), G: -1, OK: true})
	return it.val, true
}

func (a *recCore) DequeueWithAckId() (any, bool, string) {
	if a.enter("Dequeue") || len(a.pending) == 0 {
		a.env.log(Ev{K: "ad", C: -1, Op: "DequeueWithAckId", Q: a.idx, J: -1, G: -1})
		return nil, false, ""
	}
	it := a.pending[0]
	a.pending = a.pending[1:]
	a.ackSeq++
	id := fmt.Sprintf("ack-%d-%d", a.idx, a.ackSeq)
	a.unacked[id] = it
	a.ackOrder = append(a.ackOrder, id)
	a.env.log(Ev{K: "ad", C: -1, Op: "DequeueWithAckId", Q: a.idx, J: jobOfItem(it.val), G: -1, OK: true, S: id})
	return it.val, true, id
}

func (a *recCore) Acknowledge(id string) bool {
	if a.enter("Acknowledge") {
		a.env.log(Ev{K: "ad", C: -1, Op: "Acknowledge", Q: a.idx, J: -1, G: -1, S: id, E: "fault"})
		return false
	}
	if f := a.faults["AckGate"]; f != nil && f[a.mcalls["Acknowledge"]] {
		// a slow acknowledgement (a remote round trip): it completes when nothing else can run
		gen := a.env.ackGen
		a.env.ackParked++
		vrt.Block(vrt.KeyOf(a.env)+2000003, "slow acknowledge", func() bool { return a.env.ackGen > gen })
		a.env.ackParked--
	}
	it, ok := a.unacked[id]
	if !ok {
		e := "unknown-id"
		if a.acked[id] {
			e = "double-ack"
		}
		a.env.log(Ev{K: "ad", C: -1, Op: "Acknowledge", Q: a.idx, J: -1, G: -1, S: id, E: e})
		return false
	}
	delete(a.unacked, id)
	a.acked[id] = true
	a.env.log(Ev{K: "ad", C: -1, Op: "Acknowledge", Q: a.idx, J: jobOfItem(it.val), G: -1, S: id, OK: true})
	return true
}

func (a *recCore) Values() []any {
	vrt.Point("adapter.Values")
	var v []any
	for _, it := range a.pending {
		v = append(v, it.val)
	}
	return v
}
func (a *recCore) Purge() {
	vrt.Point("adapter.Purge")
	a.env.log(Ev{K: "ad", C: -1, Op: "Purge", Q: a.idx, J: -1, G: -1, I: int64(len(a.pending))})
	a.pending = nil
}
func (a *recCore) Close() error {
	vrt.Point("adapter.Close")
	a.closed = true
	return nil
}
func (a *recCore) Subscribe(f func(string)) {
	vrt.Point("adapter.Subscribe")
	a.subs = append(a.subs, f)
}

// recovered returns what a recovery would find: unacked items (in delivery order) followed by pending ones.
func (a *recCore) recovered() []adItem {
	var out []adItem
	for _, id := range a.ackOrder {
		if it, ok := a.unacked[id]; ok {
			out = append(out, it)
		}
	}
	out = append(out, a.pending...)
	return out
}

type recQ struct{ *recCore }

func (a recQ) Enqueue(item any) bool { return a.enqueue(item, 0) }

type recPQ struct{ *recCore }

func (a recPQ) Enqueue(item any, prio int) bool { return a.enqueue(item, prio) }

var (
	_ varmq.IDistributedQueue         = recQ{}
	_ varmq.IDistributedPriorityQueue = recPQ{}
)

// ---------------------------------------------------------------------------
// uniform view of the three worker kinds and their queue kinds

type jobH struct {
	id       func() string
	status   func() string
	isClosed func() bool
	wait     func()
	close    func() error
	result   func() (int, error) // res worker
	err      func() error        // err worker
	drain    func()
}

type groupH struct {
	n       int
	npend   func() int
	wait    func()
	results func() <-chan varmq.Result[int]
	errs    func() <-chan error
	drain   func()
}

type qh struct {
	kind   string
	add    func(p Payload, prio int, id string) (*jobH, bool)
	addAll func(items []varmq.Item[Payload]) *groupH
	purge  func()
	close  func() error
	npend  func() int
	ad     *recCore
}

func jobOpts(id string) []varmq.JobConfigFunc {
	if id == "" {
		return nil
	}
	return []varmq.JobConfigFunc{varmq.WithJobId(id)}
}

func plainJobH(j varmq.EnqueuedJob) *jobH {
	return &jobH{id: j.ID, status: j.Status, isClosed: j.IsClosed, wait: j.Wait, close: j.Close}
}
func errJobH(j varmq.EnqueuedErrJob) *jobH {
	return &jobH{id: j.ID, status: j.Status, isClosed: j.IsClosed, wait: j.Wait, close: j.Close, err: j.Err, drain: j.Drain}
}
func resJobH(j varmq.EnqueuedResultJob[int]) *jobH {
	return &jobH{id: j.ID, status: j.Status, isClosed: j.IsClosed, wait: j.Wait, close: j.Close, result: j.Result, drain: j.Drain}
}

func bindPlain(env *Env, w varmq.IWorkerBinder[Payload], kind string, idx int, shared *recCore) *qh {
	switch kind {
	case "std", "wstd":
		var q varmq.Queue[Payload]
		if kind == "wstd" {
			q = w.WithQueue(newAckMem(env))
		} else {
			q = w.BindQueue()
		}
		return &qh{kind: kind,
			add: func(p Payload, prio int, id string) (*jobH, bool) {
				j, ok := q.Add(p, jobOpts(id)...)
				if !ok {
					return nil, false
				}
				return plainJobH(j), true
			},
			addAll: func(items []varmq.Item[Payload]) *groupH {
				g := q.AddAll(items)
				return &groupH{n: len(items), npend: g.NumPending, wait: g.Wait}
			},
			purge: q.Purge, close: q.Close, npend: q.NumPending}
	case "prio":
		q := w.BindPriorityQueue()
		return &qh{kind: kind,
			add: func(p Payload, prio int, id string) (*jobH, bool) {
				j, ok := q.Add(p, prio, jobOpts(id)...)
				if !ok {
					return nil, false
				}
				return plainJobH(j), true
			},
			addAll: func(items []varmq.Item[Payload]) *groupH {
				g := q.AddAll(items)
				return &groupH{n: len(items), npend: g.NumPending, wait: g.Wait}
			},
			purge: q.Purge, close: q.Close, npend: q.NumPending}
	case "pers":
		ad := shared
		if ad == nil {
			ad = newRecCore(env, idx, false)
		}
		q := w.WithPersistentQueue(recQ{ad})
		return &qh{kind: kind, ad: ad,
			add: func(p Payload, prio int, id string) (*jobH, bool) {
				return nil, q.Add(p, jobOpts(id)...)
			},
			purge: q.Purge, close: q.Close, npend: q.NumPending}
	case "persprio":
		ad := shared
		if ad == nil {
			ad = newRecCore(env, idx, true)
		}
		q := w.WithPersistentPriorityQueue(recPQ{ad})
		return &qh{kind: kind, ad: ad,
			add: func(p Payload, prio int, id string) (*jobH, bool) {
				return nil, q.Add(p, prio, jobOpts(id)...)
			},
			purge: q.Purge, close: q.Close, npend: q.NumPending}
	case "dist":
		ad := shared
		if ad == nil {
			ad = newRecCore(env, idx, false)
		}
		q := w.WithDistributedQueue(recQ{ad})
		return &qh{kind: kind, ad: ad,
			add: func(p Payload, prio int, id string) (*jobH, bool) {
				return nil, q.Add(p, jobOpts(id)...)
			},
			purge: q.Purge, close: q.Close, npend: q.NumPending}
	case "distprio":
		ad := shared
		if ad == nil {
			ad = newRecCore(env, idx, true)
		}
		q := w.WithDistributedPriorityQueue(recPQ{ad})
		return &qh{kind: kind, ad: ad,
			add: func(p Payload, prio int, id string) (*jobH, bool) {
				return nil, q.Add(p, prio, jobOpts(id)...)
			},
			purge: q.Purge, close: q.Close, npend: q.NumPending}
	}
	panic("bad queue kind " + kind)
}

func bindErr(env *Env, w varmq.IErrWorkerBinder[Payload], kind string) *qh {
	mkG := func(g varmq.EnqueuedErrGroupJob, n int) *groupH {
		return &groupH{n: n, npend: g.NumPending, wait: g.Wait, errs: g.Errs, drain: g.Drain}
	}
	switch kind {
	case "std", "wstd":
		var q varmq.ErrQueue[Payload]
		if kind == "wstd" {
			q = w.WithQueue(newAckMem(env))
		} else {
			q = w.BindQueue()
		}
		return &qh{kind: kind,
			add: func(p Payload, prio int, id string) (*jobH, bool) {
				j, ok := q.Add(p, jobOpts(id)...)
				if !ok {
					return nil, false
				}
				return errJobH(j), true
			},
			addAll: func(items []varmq.Item[Payload]) *groupH { return mkG(q.AddAll(items), len(items)) },
			purge:  q.Purge, close: q.Close, npend: q.NumPending}
	case "prio":
		q := w.BindPriorityQueue()
		return &qh{kind: kind,
			add: func(p Payload, prio int, id string) (*jobH, bool) {
				j, ok := q.Add(p, prio, jobOpts(id)...)
				if !ok {
					return nil, false
				}
				return errJobH(j), true
			},
			addAll: func(items []varmq.Item[Payload]) *groupH { return mkG(q.AddAll(items), len(items)) },
			purge:  q.Purge, close: q.Close, npend: q.NumPending}
	}
	panic("bad queue kind for err worker " + kind)
}

func bindRes(env *Env, w varmq.IResultWorkerBinder[Payload, int], kind string) *qh {
	mkG := func(g varmq.EnqueuedResultGroupJob[int], n int) *groupH {
		return &groupH{n: n, npend: g.NumPending, wait: g.Wait, results: g.Results, drain: g.Drain}
	}
	switch kind {
	case "std", "wstd":
		var q varmq.ResultQueue[Payload, int]
		if kind == "wstd" {
			q = w.WithQueue(newAckMem(env))
		} else {
			q = w.BindQueue()
		}
		return &qh{kind: kind,
			add: func(p Payload, prio int, id string) (*jobH, bool) {
				j, ok := q.Add(p, jobOpts(id)...)
				if !ok {
					return nil, false
				}
				return resJobH(j), true
			},
			addAll: func(items []varmq.Item[Payload]) *groupH { return mkG(q.AddAll(items), len(items)) },
			purge:  q.Purge, close: q.Close, npend: q.NumPending}
	case "prio":
		q := w.BindPriorityQueue()
		return &qh{kind: kind,
			add: func(p Payload, prio int, id string) (*jobH, bool) {
				j, ok := q.Add(p, prio, jobOpts(id)...)
				if !ok {
					return nil, false
				}
				return resJobH(j), true
			},
			addAll: func(items []varmq.Item[Payload]) *groupH { return mkG(q.AddAll(items), len(items)) },
			purge:  q.Purge, close: q.Close, npend: q.NumPending}
	}
	panic("bad queue kind for res worker " + kind)
}

// ---------------------------------------------------------------------------
// ackMem: a user-supplied in-memory FIFO adapter for WithQueue (queue kind "wstd") that also
// implements IAcknowledgeable, as a bounded or instrumented user queue might. The jobs stay
// in-memory handles; the library hands out ack ids but (for in-memory jobs) never acknowledges.
// The k-th Acknowledge call is refused when the case's fault plan says so.

type ackMem struct {
	env      *Env
	items    []any
	unacked  map[string]bool
	ackSeq   int
	ackCalls int
	deqCalls int
	closed   bool
}

func newAckMem(env *Env) *ackMem { return &ackMem{env: env, unacked: map[string]bool{}} }

func (a *ackMem) Len() int { vrt.Point("wq.Len"); return len(a.items) }
func (a *ackMem) Enqueue(item any) bool {
	vrt.Point("wq.Enqueue")
	if a.closed {
		return false
	}
	a.items = append(a.items, item)
	return true
}
func (a *ackMem) Dequeue() (any, bool) {
	vrt.Point("wq.Dequeue")
	a.deqCalls++
	for _, f := range a.env.c.Faults {
		if f.Method == "Dequeue" && f.K == a.deqCalls {
			return nil, false // the adapter comes back empty-handed once
		}
	}
	if len(a.items) == 0 {
		return nil, false
	}
	it := a.items[0]
	a.items = a.items[1:]
	return it, true
}
func (a *ackMem) DequeueWithAckId() (any, bool, string) {
	it, ok := a.Dequeue()
	if !ok {
		return nil, false, ""
	}
	a.ackSeq++
	id := fmt.Sprintf("wack-%d", a.ackSeq)
	a.unacked[id] = true
	return it, true, id
}
func (a *ackMem) Acknowledge(id string) bool {
	vrt.Point("wq.Acknowledge")
	a.ackCalls++
	for _, f := range a.env.c.Faults {
		if f.Method == "Acknowledge" && f.K == a.ackCalls {
			return false
		}
	}
	if !a.unacked[id] {
		return false
	}
	delete(a.unacked, id)
	return true
}
func (a *ackMem) Values() []any { vrt.Point("wq.Values"); return append([]any(nil), a.items...) }
func (a *ackMem) Purge()        { vrt.Point("wq.Purge"); a.items = nil }
func (a *ackMem) Close() error  { vrt.Point("wq.Close"); a.closed = true; return nil }

// isMemKind: queue kinds whose jobs are in-memory handles (Add returns a handle, AddAll exists).
func isMemKind(k string) bool { return k == "std" || k == "prio" || k == "wstd" }
