package vharness

import (
	"errors"
	"fmt"
	"strings"

	"github.com/goptics/varmq"
	"github.com/goptics/varmq/vrt"
	"pgregory.net/rapid"
)

// C07, second part: the Func / ErrFunc / ResultFunc helper workers, whose payload is the
// function to run, including nil functions.

type helperJob struct {
	Kind int `json:"kind"` // 0 nil function, 1 succeeds, 2 returns an error, 3 panics
}

type helperCase struct {
	Worker string      `json:"worker"` // func | errfunc | resultfunc
	Conc   int         `json:"conc"`
	Jobs   []helperJob `json:"jobs"`
	Sched  Sched       `json:"schedule"`
}

func genHelperCase(t *rapid.T, th bool) *helperCase {
	hc := &helperCase{Worker: pick(t, "helper", []string{"func", "errfunc", "resultfunc"}), Conc: pick(t, "conc", []int{1, 2, 4})}
	for i := 0; i < rapid.IntRange(1, 6).Draw(t, "njobs"); i++ {
		hc.Jobs = append(hc.Jobs, helperJob{Kind: rapid.IntRange(0, 3).Draw(t, "jobkind")})
	}
	hc.Sched = genSched(t, &Profile{}, th)
	return hc
}

// runHelperCase executes the case and returns violations.
func runHelperCase(hc *helperCase) []Violation {
	var out []Violation
	ran := make([]int, len(hc.Jobs))
	type res struct {
		val int
		err error
		has bool
	}
	results := make([]res, len(hc.Jobs))
	var succ, fail uint64
	var werrs []string
	rep := vrt.Run(vrt.Options{Chooser: mkChooser(hc.Sched), MaxSteps: 200000}, func() {
		reader := func(w varmq.Worker) {
			vrt.Go("errs", false, func() {
				for {
					err, ok := vrt.Recv2(w.Errs())
					if !ok {
						return
					}
					werrs = append(werrs, fmt.Sprint(err))
				}
			})
		}
		switch hc.Worker {
		case "func":
			w := varmq.NewWorker(varmq.Func(), hc.Conc)
			q := w.BindQueue()
			reader(w)
			var hs []varmq.EnqueuedJob
			for i, j := range hc.Jobs {
				i := i
				var fn func()
				switch j.Kind {
				case 1, 2:
					fn = func() { ran[i]++ }
				case 3:
					fn = func() { ran[i]++; panic(fmt.Sprintf("HP%d", i)) }
				}
				h, _ := q.Add(fn)
				hs = append(hs, h)
			}
			for _, h := range hs {
				h.Wait()
			}
			vrt.Settle()
			succ, fail = w.Metrics().Successful(), w.Metrics().Failed()
			w.Stop()
		case "errfunc":
			w := varmq.NewErrWorker(varmq.ErrFunc(), hc.Conc)
			q := w.BindQueue()
			reader(w)
			var hs []varmq.EnqueuedErrJob
			for i, j := range hc.Jobs {
				i := i
				var fn func() error
				switch j.Kind {
				case 1:
					fn = func() error { ran[i]++; return nil }
				case 2:
					fn = func() error { ran[i]++; return fmt.Errorf("HE%d", i) }
				case 3:
					fn = func() error { ran[i]++; panic(fmt.Sprintf("HP%d", i)) }
				}
				h, _ := q.Add(fn)
				hs = append(hs, h)
			}
			for i, h := range hs {
				results[i] = res{err: h.Err(), has: true}
			}
			vrt.Settle()
			succ, fail = w.Metrics().Successful(), w.Metrics().Failed()
			w.Stop()
		default:
			w := varmq.NewResultWorker(varmq.ResultFunc[int](), hc.Conc)
			q := w.BindQueue()
			reader(w)
			var hs []varmq.EnqueuedResultJob[int]
			for i, j := range hc.Jobs {
				i := i
				var fn func() (int, error)
				switch j.Kind {
				case 1:
					fn = func() (int, error) { ran[i]++; return 1000 + i, nil }
				case 2:
					fn = func() (int, error) { ran[i]++; return 0, fmt.Errorf("HE%d", i) }
				case 3:
					fn = func() (int, error) { ran[i]++; panic(fmt.Sprintf("HP%d", i)) }
				}
				h, _ := q.Add(fn)
				hs = append(hs, h)
			}
			for i, h := range hs {
				v, err := h.Result()
				results[i] = res{val: v, err: err, has: true}
			}
			vrt.Settle()
			succ, fail = w.Metrics().Successful(), w.Metrics().Failed()
			w.Stop()
		}
	})
	if len(rep.Crashes) > 0 {
		return []Violation{v("C07", "crash", "helper worker %s: panic escaped: %s", hc.Worker, rep.Crashes[0].Value)}
	}
	if rep.Deadlock {
		return []Violation{v("C07", "helper-deadlock", "helper worker %s: blocked %v", hc.Worker, rep.Blocked)}
	}
	if rep.StepLimit {
		return nil
	}
	var wantS, wantF uint64
	for i, j := range hc.Jobs {
		wantRan := 0
		if j.Kind != 0 {
			wantRan = 1
		}
		if ran[i] != wantRan {
			out = append(out, v("C07", "helper-runs", "%s job %d (kind %d): its function ran %d times", hc.Worker, i, j.Kind, ran[i]))
		}
		failed := j.Kind == 0 || j.Kind == 3 || (j.Kind == 2 && hc.Worker != "func")
		if failed {
			wantF++
		} else {
			wantS++
		}
		if !results[i].has {
			continue
		}
		e := ""
		if results[i].err != nil {
			e = results[i].err.Error()
		}
		switch j.Kind {
		case 0:
			if e == "" {
				out = append(out, v("C07", "helper-nil", "%s job %d with a nil function reports error %q", hc.Worker, i, e))
			}
		case 1:
			if e != "" || (hc.Worker == "resultfunc" && results[i].val != 1000+i) {
				out = append(out, v("C07", "helper-result", "%s job %d reports (%d,%q), want (%d,nil)", hc.Worker, i, results[i].val, e, 1000+i))
			}
		case 2:
			if e != fmt.Sprintf("HE%d", i) {
				out = append(out, v("C07", "helper-error", "%s job %d reports error %q, want HE%d", hc.Worker, i, e, i))
			}
		case 3:
			if !strings.Contains(e, fmt.Sprintf("HP%d", i)) {
				out = append(out, v("C07", "helper-panic", "%s job %d panicked with HP%d but reports error %q", hc.Worker, i, i, e))
			}
		}
	}
	if succ != wantS || fail != wantF {
		out = append(out, v("C07", "helper-metrics", "%s: Successful=%d Failed=%d, the outcome assignment gives %d/%d", hc.Worker, succ, fail, wantS, wantF))
	}
	for _, e := range werrs {
		ok := !strings.Contains(e, "HE") && !strings.Contains(e, "HP") // errors of nil functions carry no marker
		for i, j := range hc.Jobs {
			if (j.Kind == 2 && e == fmt.Sprintf("HE%d", i)) || (j.Kind == 3 && strings.Contains(e, fmt.Sprintf("HP%d", i))) {
				ok = true
			}
		}
		if !ok {
			out = append(out, v("C07", "helper-errs-foreign", "%s: Errs() delivered %q which no job produced", hc.Worker, e))
		}
	}
	return out
}

var _ = errors.New
