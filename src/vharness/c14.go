package vharness

import (
	"fmt"

	"pgregory.net/rapid"
)

// C14: lifecycle calls follow the documented state machine for every call sequence.

var c14Alphabet = []Op{
	{Op: "bind", Kind: "std"}, {Op: "pause"}, {Op: "pausewait"}, {Op: "resume"}, {Op: "stop"}, {Op: "waitstop"}, {Op: "restart"},
	{Op: "tune", V: -100}, // same value (resolved at build time)
	{Op: "tune", V: 3},    // other value
	{Op: "cancelctx"},
	{Op: "add"}, // submit a job (numbered at build time): it must run iff/when the machine is Running
}

type c14Variant struct {
	Ctx       bool
	Expiry    int
	Jobs      int // 0 none, 1 two gated jobs in flight (pool saturated) + one pending, 2 one gated job in flight (a slot is free)
	Initiated bool
}

func c14Variants() []c14Variant {
	var out []c14Variant
	for _, ctx := range []bool{false, true} {
		for _, ex := range []int{0, 1000} {
			for _, jobs := range []int{0, 1, 2} {
				out = append(out, c14Variant{Ctx: ctx, Expiry: ex, Jobs: jobs})
			}
			out = append(out, c14Variant{Ctx: ctx, Expiry: ex, Initiated: true})
		}
	}
	return out
}

const c14Probe = 9999

func c14Case(v c14Variant, seq []int, sched Sched) *Case {
	c := &Case{Prop: "C14", Cfg: Config{Kind: "plain", Conc: 2, Ctx: v.Ctx, ExpiryUs: v.Expiry}, Sched: sched}
	if !v.Initiated {
		c.Cfg.Queues = []string{"std"}
	}
	var ops []Op
	if v.Jobs == 1 && !v.Initiated {
		ops = append(ops, Op{Op: "add", It: &Item{N: 1, Gated: true}}, Op{Op: "add", It: &Item{N: 2, Gated: true}}, Op{Op: "add", It: &Item{N: 3}}, Op{Op: "settle"})
	}
	if v.Jobs == 2 && !v.Initiated {
		ops = append(ops, Op{Op: "add", It: &Item{N: 1, Gated: true}}, Op{Op: "settle"})
	}
	nextN := 100
	// a small copy of the reference machine, only to aim the "same value" TunePool calls
	cancelled := false
	st, cur := "Running", 2
	if v.Initiated {
		st = "Initiated"
	}
	for _, k := range seq {
		op := c14Alphabet[k]
		switch op.Op {
		case "add":
			nextN++
			op.It = &Item{N: nextN}
		case "cancelctx":
			if !v.Ctx {
				continue
			}
			if !cancelled && v.Jobs == 2 && !v.Initiated {
				ops = append(ops, Op{Op: "release", N: 1})
			}
			if !cancelled && v.Jobs == 1 && !v.Initiated {
				// the listener's Stop waits for the in-flight jobs: open their gates first
				ops = append(ops, Op{Op: "release", N: 1}, Op{Op: "release", N: 2})
			}
			cancelled = true
		case "tune":
			if op.V == -100 {
				op.V = cur
			} else if op.V == cur {
				op.V = cur + 1
			}
			if st == "Running" {
				cur = op.V
			}
		default:
			pre := st
			st = nextState(st, op.Op)
			if op.Op == "resume" && pre == "Stopped" {
				st = pre
			}
			if (op.Op == "stop" || op.Op == "waitstop") && pre == "Initiated" {
				st = pre
			}
		}
		if cancelled && (st == "Running" || st == "Paused") {
			st = "Stopped"
		}
		ops = append(ops, op)
		if cancelled || op.Op == "add" {
			// after a submission the event loop is given the time to consume its signal: whatever
			// call follows (Resume, TunePool, Restart ...) has to wake it up again by itself
			ops = append(ops, Op{Op: "settle"})
		}
	}
	// a settled point with the gated jobs still held: a job submitted during the sequence must not be stalled
	ops = append(ops, Op{Op: "settle"})
	if v.Jobs == 1 && !v.Initiated {
		ops = append(ops, Op{Op: "release", N: 1}, Op{Op: "release", N: 2})
	}
	if v.Jobs == 2 && !v.Initiated {
		ops = append(ops, Op{Op: "release", N: 1})
	}
	ops = append(ops, Op{Op: "settle"}, Op{Op: "add", It: &Item{N: c14Probe}}, Op{Op: "settle"})
	c.Clients = [][]Op{ops}
	return c
}

const (
	eNotRunning = "ErrNotRunningWorker"
	eRunning    = "ErrRunningWorker"
	eSameConc   = "ErrSameConcurrency"
)

func oC14(ix *Index) []Violation {
	var out []Violation
	st := "Running"
	if len(ix.C.Cfg.Queues) == 0 {
		st = "Initiated"
	}
	conc := resolveConc(ix.C.Cfg.Conc)
	cancelled := false
	bound := len(ix.C.Cfg.Queues) > 0
	visited := map[string]bool{st: true}
	settledState := func() string {
		if cancelled && (st == "Running" || st == "Paused") {
			return "Stopped"
		}
		return st
	}
	probeSeen := false
	for _, c := range ix.Calls {
		if c.C != 0 {
			continue
		}
		if c.Op == "add" && c.J == c14Probe {
			probeSeen = true
			continue
		}
		if c.Op == "add" || c.Op == "release" {
			continue
		}
		if probeSeen {
			break // the controller's tail (ensureRunning) is not part of the sequence
		}
		if !c.Returned() {
			out = append(out, v("C14", "call-stuck", "%s called at %d in state %s never returned", c.Op, c.Call, st))
			return out
		}
		if c.Op == "settle" {
			if cancelled {
				// the asynchronous context listener has had its chance
				st = settledState()
			}
			if sn := c.RetEv.Sn; sn != nil && sn.OKSnap && sn.Status != st {
				out = append(out, v("C14", "status", "at settled point %d the worker reports %s, the reference machine is in %s (context cancelled: %v)", c.Ret, sn.Status, st, cancelled))
				return out
			}
			continue
		}
		if !lifecycleOps[c.Op] {
			continue
		}
		pre := st
		wantErr := ""
		switch c.Op {
		case "bind":
			bound = true
			if st == "Initiated" {
				st = "Running"
			}
		case "pause", "pausewait":
			switch st {
			case "Running":
				st = "Paused"
			case "Initiated":
				wantErr = eNotRunning
			}
		case "resume":
			switch st {
			case "Stopped":
				wantErr = eNotRunning
			case "Running":
				wantErr = eRunning
			case "Initiated", "Paused":
				st = "Running"
			}
		case "stop", "waitstop":
			switch st {
			case "Initiated":
				wantErr = eNotRunning
			default:
				st = "Stopped"
			}
		case "restart":
			st = "Running"
		case "tune":
			nv := resolveConc(int(c.CallEv.I))
			switch {
			case st != "Running":
				wantErr = eNotRunning
			case nv == conc:
				wantErr = eSameConc
			default:
				conc = nv
			}
		case "cancelctx":
			cancelled = true
		}
		visited[st] = true
		if c.Op == "cancelctx" {
			continue
		}
		if c.RetEv.E != wantErr {
			out = append(out, v("C14", "error-value", "%s in state %s returned %q, the documented machine says %q", c.Op, pre, c.RetEv.E, wantErr))
			return out
		}
		if !cancelled && c.RetEv.St != st {
			out = append(out, v("C14", "status", "after %s in state %s the worker reports %s, the reference machine is in %s", c.Op, pre, c.RetEv.St, st))
			return out
		}
		if c.Op == "tune" && wantErr == "" && int(c.RetEv.I) != conc {
			out = append(out, v("C14", "concurrency", "after TunePool(%d) NumConcurrency() = %d", c.CallEv.I, c.RetEv.I))
		}
	}
	// "never reports Running while unable to process jobs": no stalled job at any settled point
	for _, x := range lostWakeups(ix, "C14") {
		x.Oracle = "running-but-stalled"
		out = append(out, x)
	}
	// the probe job runs iff the reference state is Running (and a queue is bound)
	if j := ix.Jobs[c14Probe]; j != nil && j.Add.Returned() {
		// find the settle after the probe
		var after *CallRec
		for i := range ix.Calls {
			c := &ix.Calls[i]
			if c.C == 0 && c.Op == "settle" && c.Call > j.Add.Ret && c.Returned() {
				after = c
				break
			}
		}
		if after != nil {
			ran := len(j.Enters) > 0 && j.Enters[0] < after.Ret
			want := settledState() == "Running" && bound
			if ran != want {
				out = append(out, v("C14", "probe", "reference state %s (reported %s): a probe job submitted after the sequence ran=%v, want %v", settledState(), after.RetEv.Sn.Status, ran, want))
			}
		}
	}
	_ = visited
	return out
}

func c14Visited(ix *Index) int {
	st := map[string]bool{}
	for _, c := range ix.Calls {
		if c.C == 0 && c.Returned() && c.RetEv.St != "" {
			st[c.RetEv.St] = true
		}
	}
	return len(st)
}

// c14Enumerate runs every sequence up to length maxLen for every variant (sharded) on the base schedule.
func c14Enumerate(spec *Spec, st *Stats, shard, nshards, maxLen int, fail func(c *Case, vs []Violation, r *Result)) {
	variants := c14Variants()
	na := len(c14Alphabet)
	idx := 0
	total := 0
	var rec func(seq []int)
	rec = func(seq []int) {
		for vi, va := range variants {
			_ = vi
			total++
			idx++
			if idx%nshards != shard {
				continue
			}
			c := c14Case(va, seq, Sched{Strategy: "base"})
			st.cur(c)
			r := RunCase(c)
			if vs := evaluate(spec, c, r, st); len(vs) > 0 {
				fail(c, vs, r)
			}
		}
		if len(seq) == maxLen {
			return
		}
		for k := 0; k < na; k++ {
			rec(append(append([]int(nil), seq...), k))
		}
	}
	rec(nil)
	t := true
	st.Exhaustive = &t
	st.Enumerated = total
	if st.Extra == nil {
		st.Extra = map[string]any{}
	}
	st.Extra["enumerated_space"] = fmt.Sprintf("all sequences of length <= %d over %d lifecycle calls x %d configuration variants = %d episodes (this shard: 1/%d of them)", maxLen, na, len(variants), total, nshards)
}

func genC14(t *rapid.T, th bool) *Case {
	vs := c14Variants()
	va := vs[rapid.IntRange(0, len(vs)-1).Draw(t, "variant")]
	n := rapid.IntRange(1, scale(th, 12, 30)).Draw(t, "len")
	var seq []int
	for i := 0; i < n; i++ {
		seq = append(seq, rapid.IntRange(0, len(c14Alphabet)-1).Draw(t, "call"))
	}
	pf := &Profile{}
	return c14Case(va, seq, genSched(t, pf, th))
}

func init() {
	register(&Spec{Prop: "C14", Gen: genC14,
		Enumerate: func(spec *Spec, st *Stats, shard, nshards int, th bool, fail func(c *Case, vs []Violation, r *Result)) {
			c14Enumerate(spec, st, shard, nshards, scale(th, 3, 5), fail)
		},
		Oracles: []oracleFn{oC14},
		Foreign: []oracleFn{oCrash("*"), oDeadlock("C03"), oLivelock("C03")},
		NonTrivial: func(ix *Index) (bool, []string) {
			n := c14Visited(ix)
			cl := []string{fmt.Sprintf("states-visited:%d", n), "sched:" + ix.C.Sched.Strategy}
			if ix.C.Cfg.Ctx {
				cl = append(cl, "ctx")
			}
			if len(ix.C.Cfg.Queues) == 0 {
				cl = append(cl, "starts-initiated")
			}
			return n >= 3, cl
		}})
}
