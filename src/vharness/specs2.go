package vharness

import (
	"pgregory.net/rapid"
)

func init() {
	// ------------------------------------------------------------------ C13
	register(&Spec{Prop: "C13",
		Gen: func(t *rapid.T, th bool) *Case {
			pf := &Profile{Kinds: []string{"plain"}, QKinds: []string{"dist", "distprio"}, MaxQueues: 1, Concs: []int{1, 2, 3, 4}, MinClients: 1, MaxClients: 3, MaxOps: scale(th, 6, 12),
				Ops:     map[string]int{"add": 40, "addmany": 10, "release": 8, "settle": 4, "yield": 5, "sleep": 2},
				MaxCtrl: 0, GatedProb: 40, MaxBatch: 4}
			c := genProgram(t, "C13", pf, th)
			nc := rapid.IntRange(0, 2).Draw(t, "consumers")
			for i := 0; i < nc; i++ {
				c.Cfg.Consumers = append(c.Cfg.Consumers, rapid.IntRange(1, 3).Draw(t, "consconc"))
			}
			c.Cfg.AsyncNotify = rapid.Bool().Draw(t, "async")
			// the adapter may come back empty-handed or refuse an acknowledgement once in a while (a lost race
			// on the shared store, a transient error): announced items must still be picked up without prompting
			if rapid.IntRange(0, 2).Draw(t, "withdeqfaults") == 0 {
				for i := 0; i < rapid.IntRange(1, 2).Draw(t, "ndeqfaults"); i++ {
					c.Faults = append(c.Faults, Fault{Method: pick(t, "fmethod", []string{"Dequeue", "Dequeue", "Acknowledge"}), K: rapid.IntRange(1, 5).Draw(t, "deqfk")})
				}
			}
			np := rapid.IntRange(0, 3).Draw(t, "npre")
			for i := 0; i < np; i++ {
				c.Cfg.PreItems = append(c.Cfg.PreItems, Item{N: 9000 + i, ID: "pre" + itoa(i), Gated: rapid.Bool().Draw(t, "pregated"), Prio: rapid.IntRange(0, 2).Draw(t, "preprio")})
			}
			return c
		},
		Oracles: []oracleFn{oC13},
		Foreign: []oracleFn{oCrash("*"), oLivelock("C03")},
		NonTrivial: func(ix *Index) (bool, []string) {
			cl := classesOf(ix)
			if len(ix.C.Cfg.Consumers) > 0 {
				cl = append(cl, "multi-consumer")
			}
			if len(ix.C.Cfg.PreItems) > 0 {
				cl = append(cl, "items-before-bind")
			}
			sat := false
			for _, ev := range ix.Ad {
				if ev.Op == "Enqueue" && ev.OK {
					// notification while some consumer is saturated
					sat = sat || ix.inflightAt(ev) > 0
				}
			}
			if sat {
				cl = append(cl, "notify-while-busy")
			}
			return len(ix.C.Cfg.Consumers) > 0 || sat, cl
		}})

	// ------------------------------------------------------------------ C15
	register(&Spec{Prop: "C15",
		Gen: func(t *rapid.T, th bool) *Case {
			c := &Case{Prop: "C15", Cfg: Config{Kind: "plain", Conc: 1, StartPaused: true, Strategy: rapid.IntRange(0, 2).Draw(t, "strategy")}}
			nq := rapid.IntRange(2, scale(th, 4, 5)).Draw(t, "nq")
			for i := 0; i < nq; i++ {
				c.Cfg.Queues = append(c.Cfg.Queues, pick(t, "qkind", allQKinds))
			}
			n := 0
			var ops []Op
			add := func(q int) {
				n++
				it := Item{N: n, Gated: true, Prio: rapid.IntRange(0, 2).Draw(t, "prio")}
				ops = append(ops, Op{Op: "add", Q: q, It: &it})
			}
			for q := 0; q < nq; q++ {
				k := rapid.IntRange(0, 6).Draw(t, "population")
				for i := 0; i < k; i++ {
					add(q)
				}
			}
			// shuffle the submissions a little: interleaved patterns
			if len(ops) > 1 {
				perm := rapid.Permutation(ops).Draw(t, "order")
				ops = perm
			}
			// cancel some pending jobs of in-memory queues while the worker is still paused
			var cancellable []int
			for _, op := range ops {
				if isMemKind(c.Cfg.Queues[op.Q]) {
					cancellable = append(cancellable, op.It.N)
				}
			}
			if len(cancellable) > 0 && rapid.IntRange(0, 2).Draw(t, "withcancel") == 0 {
				for i := 0; i < rapid.IntRange(1, 3).Draw(t, "ncancel"); i++ {
					ops = append(ops, Op{Op: "close", N: pick(t, "cancelwhich", cancellable)})
				}
			}
			ops = append(ops, Op{Op: "resume"})
			// further submissions at settled points (one gated job in flight, everything else quiet)
			// and queues bound while the rotation is under way
			extra := rapid.IntRange(0, 5).Draw(t, "extra")
			for i := 0; i < extra; i++ {
				ops = append(ops, Op{Op: "settle"})
				if rapid.IntRange(0, 3).Draw(t, "latebind") == 0 {
					ops = append(ops, Op{Op: "bind", Kind: pick(t, "bindkind", allQKinds)})
					nq++
					if rapid.Bool().Draw(t, "populate") {
						add(nq - 1)
					}
					continue
				}
				add(rapid.IntRange(0, nq-1).Draw(t, "xq"))
			}
			c.Clients = [][]Op{ops}
			c.Sched = Sched{Strategy: "base"}
			return c
		},
		// these programs only submit, cancel, bind and resume: an event loop that spins without ever
		// dispatching while jobs are pending is starvation
		Oracles: []oracleFn{oC15, oLivelock("C15")},
		Foreign: []oracleFn{oCrash("*"), oDeadlock("C03")},
		NonTrivial: func(ix *Index) (bool, []string) {
			cl := []string{"strategy:" + itoa(ix.C.Cfg.Strategy)}
			kinds := map[string]bool{}
			nonEmpty := 0
			for q, k := range ix.QKinds {
				kinds[k] = true
				lo, _ := ix.pendingBounds(q, len(ix.C.Clients[0])) // rough: populated queues
				_ = lo
			}
			per := map[int]int{}
			for _, n := range ix.JobNums {
				per[ix.Jobs[n].Q]++
			}
			for _, k := range per {
				if k >= 2 {
					nonEmpty++
				}
			}
			for k := range kinds {
				cl = append(cl, "has:"+k)
			}
			if len(ix.ByOp["bind"]) > 0 {
				cl = append(cl, "queue-bound-mid-rotation")
			}
			return nonEmpty >= 2 && len(kinds) >= 2, cl
		}})

	// ------------------------------------------------------------------ C17
	register(&Spec{Prop: "C17",
		Gen: func(t *rapid.T, th bool) *Case {
			pf := &Profile{Kinds: allKinds, QKinds: []string{"std", "prio", "pers", "persprio", "dist", "distprio"}, MaxQueues: 3, Concs: []int{1, 2, 3}, MinClients: 2, MaxClients: 4, MaxOps: scale(th, 8, 14),
				Ops:     map[string]int{"add": 30, "addall": 5, "qpending": 12, "npend": 10, "nproc": 8, "metrics": 10, "settle": 6, "purge": 3, "close": 4, "qclose": 1, "release": 5, "yield": 3},
				Ctrl:    map[string]int{"pause": 2, "resume": 3, "tune": 3},
				MaxCtrl: 3, GatedProb: 35, Outs: []int{OutVal, OutVal, OutErr, OutPanicStr}, MaxBatch: 4}
			c := genProgram(t, "C17", pf, th)
			if rapid.IntRange(0, 3).Draw(t, "withfaults") == 0 {
				for i := 0; i < rapid.IntRange(1, 2).Draw(t, "nfaults"); i++ {
					c.Faults = append(c.Faults, Fault{Method: pick(t, "fmethod", []string{"Enqueue", "Dequeue", "Acknowledge", "Acknowledge"}), K: rapid.IntRange(1, 4).Draw(t, "fk")})
				}
			}
			return c
		},
		// "processing never above the concurrency limit" is also judged on the harness's own count of
		// invocations in progress (the C02 clauses), not only on NumProcessing readings
		Oracles: []oracleFn{oC17, renamed("C17", "processing-above-limit:", oC02), renamed("C17", "processing-above-limit:", oC02Tune)},
		Foreign: []oracleFn{oCrash("*"), oDeadlock("C03"), oLivelock("C03")},
		NonTrivial: func(ix *Index) (bool, []string) {
			cl := classesOf(ix)
			nt := false
			for _, op := range []string{"qpending", "npend", "nproc", "metrics"} {
				for _, c := range ix.ByOp[op] {
					for _, a := range ix.ByOp["add"] {
						if a.Call < c.end(ix.N) && a.end(ix.N) > c.Call {
							nt = true
						}
					}
				}
			}
			if nt {
				cl = append(cl, "sample-overlaps-add")
			}
			kinds := map[string]bool{}
			for _, k := range ix.QKinds {
				kinds[k] = true
			}
			if len(kinds) >= 2 {
				cl = append(cl, "mixed-queue-kinds")
			}
			return nt || len(kinds) >= 2, cl
		}})

	// ------------------------------------------------------------------ C18
	register(&Spec{Prop: "C18",
		Gen: func(t *rapid.T, th bool) *Case {
			pf := &Profile{Kinds: allKinds, QKinds: memQKinds, MaxQueues: 1, Concs: []int{1, 2, 3, 4, 8}, Expiry: []int{0, 60, 60, 1000}, Ratio: []int{0, 1, 20, 50, 100}, CtxProb: 30,
				MinClients: 1, MaxClients: 2, MaxOps: scale(th, 8, 14),
				Ops:     map[string]int{"add": 30, "addmany": 10, "settle": 8, "sleep": 12, "release": 8, "wait": 4, "yield": 3},
				Ctrl:    map[string]int{"tune": 10, "stop": 4, "restart": 6, "pause": 2, "resume": 3, "settle": 6, "sleep": 6},
				MaxCtrl: scale(th, 6, 12), GatedProb: 50, MaxBatch: 5, FinalStop: true}
			return genProgram(t, "C18", pf, th)
		},
		Oracles: []oracleFn{oC18, oC18Tune},
		Foreign: []oracleFn{oCrash("*"), oDeadlock("C03"), oLivelock("C03")},
		NonTrivial: func(ix *Index) (bool, []string) {
			cl := classesOf(ix)
			cycles := len(ix.ByOp["restart"])
			if cycles >= 2 {
				cl = append(cl, "restart-cycles>=2")
			}
			return cycles >= 1 || len(ix.ByOp["tune"]) > 0 || ix.C.Cfg.ExpiryUs > 0, cl
		}})
}

// inflightAt: number of invocations in progress when event ev (by clock/position) happened; approximated by scanning the history for ev.
func (ix *Index) inflightAt(ev Ev) int {
	n := 0
	for _, h := range ix.H {
		if h.K == "enter" {
			n++
		} else if h.K == "exit" {
			n--
		}
		if h.K == ev.K && h.Op == ev.Op && h.J == ev.J && h.T == ev.T && h.OK == ev.OK {
			return n
		}
	}
	return 0
}
