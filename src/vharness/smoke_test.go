package vharness

import (
	"encoding/json"
	"os"
	"testing"
)

func TestSmoke(t *testing.T) {
	c := &Case{Prop: "smoke", Cfg: Config{Kind: "res", Queues: []string{"std"}, Conc: 2, FinalStop: true},
		Clients: [][]Op{
			{{Op: "pausewait"}, {Op: "resume"}},
			{{Op: "add", Q: 0, It: &Item{N: 1, Gated: true}}, {Op: "add", Q: 0, It: &Item{N: 2, Out: OutErr}}, {Op: "result", N: 1}, {Op: "result", N: 2},
				{Op: "addall", Q: 0, G: 0, Items: []Item{{N: 3, ID: "a"}, {N: 4, ID: "b", Out: OutPanicStr}}}, {Op: "gconsume", G: 0}, {Op: "gwait", G: 0}},
		},
		Sched: Sched{Strategy: "rw", Seed: 7, Den: 3, ClockDen: 50}}
	r := RunCase(c)
	t.Logf("steps=%d switches=%d deadlock=%v crashes=%d blocked=%v live=%v", r.Rep.Steps, r.Rep.Switches, r.Rep.Deadlock, len(r.Rep.Crashes), r.Rep.Blocked, r.Rep.LiveLib)
	for _, c := range r.Rep.Crashes {
		t.Logf("crash %s: %s\n%s", c.G, c.Value, c.Stack)
	}
	if os.Getenv("VERIF_VERBOSE") != "" {
		for i, ev := range r.Hist {
			b, _ := json.Marshal(ev)
			t.Logf("%3d %s", i, b)
		}
	}
}
