package vharness

import (
	"fmt"
	"runtime"
	"strings"
)

var NumCPU = runtime.NumCPU()

type oracleFn func(ix *Index) []Violation

func v(prop, oracle, format string, a ...any) Violation {
	return Violation{Prop: prop, Oracle: oracle, Witness: fmt.Sprintf(format, a...)}
}

// ---------------------------------------------------------------- generic

func oCrash(prop string) oracleFn {
	return func(ix *Index) []Violation {
		if len(ix.R.Rep.Crashes) == 0 {
			return nil
		}
		c := ix.R.Rep.Crashes[0]
		return []Violation{v(prop, "crash", "panic escaped goroutine %s: %s | %s", c.G, c.Value, firstLibFrame(c.Stack))}
	}
}

func firstLibFrame(stack string) string {
	for _, l := range strings.Split(stack, "\n") {
		if strings.Contains(l, "goptics/varmq") && !strings.Contains(l, "/vrt") && !strings.Contains(l, "/vharness") && strings.Contains(l, "(") {
			return strings.TrimSpace(l)
		}
	}
	return ""
}

// blockedCalls returns the client calls that never returned.
func (ix *Index) blockedCalls() []CallRec {
	var out []CallRec
	for _, c := range ix.Calls {
		if !c.Returned() {
			out = append(out, c)
		}
	}
	return out
}

func oDeadlock(prop string) oracleFn {
	return func(ix *Index) []Violation {
		if !ix.R.Rep.Deadlock {
			return nil
		}
		var ops []string
		for _, c := range ix.blockedCalls() {
			ops = append(ops, fmt.Sprintf("client%d:%s(j=%d,g=%d)", c.C, c.Op, c.J, c.G))
		}
		return []Violation{v(prop, "deadlock", "no goroutine can run; blocked client calls %v; goroutines %v", ops, ix.R.Rep.Blocked)}
	}
}

func oLivelock(prop string) oracleFn {
	return func(ix *Index) []Violation {
		if ix.R.Rep.StepLimit && ix.R.Rep.LibOnlyTail {
			return []Violation{v(prop, "livelock", "step limit reached while only library goroutines ran and no event occurred for the last quarter of the episode")}
		}
		return nil
	}
}

// finalRunning: the episode completed and worker 0 is (and should be) Running at the end.
func (ix *Index) finalRunning() bool {
	return ix.Completed && ix.Final != nil && ix.Final.Status == "Running" && !ix.R.Env.ctxCancelled
}

func (ix *Index) optional(j *JobRec, before int) bool {
	// the job need not run: cancelled, possibly purged, or not certainly accepted
	if j.Accepted != 1 {
		return true
	}
	for _, cl := range j.Closes {
		if cl.Call < before && (!cl.Returned() || cl.RetEv.OK) {
			return true
		}
	}
	for _, p := range ix.Purges[j.Q] {
		if p.Call < before && p.end(ix.N) > j.Add.Call {
			return true
		}
	}
	return false
}

// ---------------------------------------------------------------- C01

func expectedIDOK(ix *Index, j *JobRec, seen string) bool {
	if j.It == nil {
		return true
	}
	prefix := ""
	if j.Group >= 0 {
		prefix = "g:"
	}
	if j.It.ID != "" {
		return seen == prefix+j.It.ID
	}
	if ix.C.Cfg.IDGen && !j.Pre {
		if j.Q >= 0 && j.Q < len(ix.QKinds) && (ix.QKinds[j.Q] == "dist" || ix.QKinds[j.Q] == "distprio") {
			return seen == "" // distributed producers use a fresh default config (no generator)
		}
		return strings.HasPrefix(seen, prefix+"gen-")
	}
	return seen == prefix
}

func oC01(ix *Index) []Violation {
	var out []Violation
	for _, n := range ix.JobNums {
		j := ix.Jobs[n]
		if len(j.Enters) > 1 {
			out = append(out, v("C01", "twice", "job %d entered %d times: %s", n, len(j.Enters), ix.describe(j.Enters...)))
		}
		if j.Accepted == 0 && len(j.Enters) > 0 {
			out = append(out, v("C01", "rejected-ran", "job %d was rejected but ran: %s", n, ix.describe(j.Add.Ret, j.Enters[0])))
		}
		if cl := j.cancelledBy(); cl != nil && len(j.Enters) > 0 && cl.Ret < j.Enters[0] {
			out = append(out, v("C01", "cancelled-ran", "job %d: Close returned nil at %d, job entered at %d", n, cl.Ret, j.Enters[0]))
		}
		for _, ev := range j.EnterEvs {
			if !expectedIDOK(ix, j, ev.S) {
				out = append(out, v("C01", "wrong-id", "job %d entered with ID %q (item %+v)", n, ev.S, *j.It))
			}
			if j.It != nil && ev.D != j.It.S {
				out = append(out, v("C01", "wrong-data", "job %d entered with data %q want %q", n, ev.D, j.It.S))
			}
		}
	}
	if ix.finalRunning() && !ix.R.Rep.Deadlock {
		for _, n := range ix.JobNums {
			j := ix.Jobs[n]
			if j.Accepted == 1 && len(j.Enters) == 0 && !ix.optional(j, ix.N) {
				out = append(out, v("C01", "never-ran", "accepted job %d (queue %d) never ran although the worker is Running and settled; final=%+v", n, j.Q, *ix.Final))
			}
		}
	}
	return out
}

// ---------------------------------------------------------------- C02

func oC02(ix *Index) []Violation {
	var out []Violation
	in := map[int]bool{}
	for pos, ev := range ix.H {
		if ev.W != 0 {
			continue
		}
		switch ev.K {
		case "enter":
			in[ev.J] = true
			a := pos
			for n := range in {
				j := ix.Jobs[n]
				c := j.Add.Call
				if j.Pre {
					c = 0
				}
				if c < a {
					a = c
				}
			}
			if a < 0 {
				a = 0
			}
			lim := ix.maxLimit(a, pos)
			if len(in) > lim {
				out = append(out, v("C02", "peak", "%d invocations in progress at position %d, largest limit in force since %d is %d", len(in), pos, a, lim))
				return out
			}
		case "exit":
			delete(in, ev.J)
		}
	}
	return out
}

// oC02Tune is the second sentence of C02: once TunePool(n) has returned, only jobs dispatched before
// it may exceed n. Dispatch (the slot reservation) is not observable, so the clause rests on what is
// certain: a job submitted after the return is dequeued after it; its reservation belongs to the
// same dispatch call as its dequeue; and a dispatcher executes one dispatch call at a time. Hence
// of the in-flight jobs submitted after the return at most D (= number of event loops that can be
// alive: 1 + Stop/Restart calls so far) were reserved before it. If more than D such jobs are in
// flight, one of them was reserved under the new limit, and when the last of all in-flight jobs was
// reserved every other one was already counted: at most n may be in flight.
// (Two earlier versions of this clause were false alarms of the check: "at most one job in transit"
// ignores jobs waiting in node channels, and "submitted after the return => reserved after it"
// ignores that a dispatch call can be preempted between its reservation and its dequeue.)
func oC02Tune(ix *Index) []Violation {
	var out []Violation
	tunes := ix.ByOp["tune"]
	for i, tc := range tunes {
		if !tc.Returned() || tc.RetEv.E != "" {
			continue
		}
		n := resolveConc(int(tc.CallEv.I))
		end := ix.N
		if i+1 < len(tunes) {
			end = tunes[i+1].Call
		}
		in := map[int]bool{}
		for pos := 0; pos < end; pos++ {
			ev := ix.H[pos]
			if ev.W != 0 {
				continue
			}
			switch ev.K {
			case "exit":
				delete(in, ev.J)
			case "enter":
				in[ev.J] = true
				if pos < tc.Ret {
					continue
				}
				fresh := 0
				for j := range in {
					if jr := ix.Jobs[j]; jr != nil && !jr.Pre && jr.Add.Call > tc.Ret {
						fresh++
					}
				}
				loops := 1
				for _, op := range []string{"restart", "stop", "waitstop"} {
					for _, c := range ix.ByOp[op] {
						if c.Call < pos {
							loops++
						}
					}
				}
				if fresh > loops && len(in) > n {
					out = append(out, v("C02", "after-tune", "TunePool(%d) returned at %d; at %d there are %d invocations in progress, %d of them submitted after the call returned (at most %d of those can have been dispatched before it)", n, tc.Ret, pos, len(in), fresh, loops))
					return out
				}
			}
		}
	}
	return out
}

// oC02Limit: the limit in force is the configured one, n < 1 meaning the number of CPUs: a
// NumConcurrency() reading taken while no TunePool call is in progress equals it.
func oC02Limit(ix *Index) []Violation {
	var out []Violation
	for _, c := range ix.ByOp["nconc"] {
		if !c.Returned() {
			continue
		}
		want := resolveConc(ix.C.Cfg.Conc)
		busy := false
		for _, t := range ix.ByOp["tune"] {
			if t.Call < c.Ret && t.end(ix.N) > c.Call {
				busy = true
			}
			if t.Returned() && t.Ret < c.Call && t.RetEv.E == "" {
				want = resolveConc(int(t.CallEv.I))
			}
		}
		if !busy && int(c.RetEv.I) != want {
			out = append(out, v("C02", "limit-value", "NumConcurrency() = %d at [%d,%d], the configured limit is %d (a value < 1 means NumCPU = %d)", c.RetEv.I, c.Call, c.Ret, want, NumCPU))
			return out
		}
	}
	return out
}

// ---------------------------------------------------------------- C03

func (ix *Index) curLimit(pos int) int {
	cur := resolveConc(ix.C.Cfg.Conc)
	for _, c := range ix.ByOp["tune"] {
		if c.Returned() && c.Ret < pos && c.RetEv.E == "" {
			cur = resolveConc(int(c.CallEv.I))
		}
	}
	return cur
}

func oC03(ix *Index) []Violation {
	var out []Violation
	out = append(out, oDeadlock("C03")(ix)...)
	out = append(out, oLivelock("C03")(ix)...)
	out = append(out, lostWakeups(ix, "C03")...)
	if ix.finalRunning() && !ix.R.Rep.Deadlock {
		for _, n := range ix.JobNums {
			j := ix.Jobs[n]
			if j.Accepted == 1 && !ix.optional(j, ix.N) && len(j.Exits) == 0 {
				out = append(out, v("C03", "unfinished", "accepted job %d never finished (entered=%v) although the worker is Running and settled", n, len(j.Enters) > 0))
			}
		}
	}
	return out
}

// lostWakeups: at a quiescent (or settled) point with a stably Running worker, a pending job and a
// free slot mean that nobody will ever dispatch it without a further API call.
func lostWakeups(ix *Index, prop string) []Violation {
	if len(ix.C.Cfg.Consumers) != 0 {
		return nil
	}
	type pt struct {
		p  int
		sn *Snap
	}
	var pts []pt
	for _, p := range ix.Quiesc {
		pts = append(pts, pt{p, ix.H[p].Sn})
	}
	for _, s := range ix.snaps() {
		if ix.H[s.pos].Op == "settle" {
			pts = append(pts, pt{s.pos, s.sn})
		}
	}
	for _, x := range pts {
		p, sn := x.p, x.sn
		if sn == nil || !sn.OKSnap || sn.Status != "Running" || ix.modelState(p) != "Running" || ix.lifeInProgress(p) || ix.ctxCancelledBefore(p) {
			continue
		}
		req, wit := 0, -1
		for _, n := range ix.JobNums {
			j := ix.Jobs[n]
			if j.Accepted != 1 || (!j.Pre && (j.Add.Ret < 0 || j.Add.Ret > p)) || j.firstEnter(ix.N) < p || ix.optional(j, p) {
				continue
			}
			req++
			wit = n
		}
		if req > 0 && sn.InFlight < ix.curLimit(p) {
			return []Violation{v(prop, "lost-wakeup", "quiescent at %d: %d job(s) pending (e.g. job %d), only %d of %d slots busy, worker Running, nobody can move: %+v", p, req, wit, sn.InFlight, ix.curLimit(p), *sn)}
		}
	}
	return nil
}

func (ix *Index) ctxCancelledBefore(p int) bool {
	for _, c := range ix.ByOp["cancelctx"] {
		if c.Call < p {
			return true
		}
	}
	return false
}

// ---------------------------------------------------------------- C04 (worker part)

// before reports whether b is certainly ahead of a in the queue's dispatch order.
func (ix *Index) orderedBefore(b, a *JobRec) bool {
	if b.Q != a.Q || b.Q < 0 || b.Q >= len(ix.QKinds) {
		return false
	}
	first := false // b certainly accepted before a
	switch {
	case b.Group >= 0 && b.Group == a.Group:
		first = b.BatchIdx < a.BatchIdx
	case b.Pre && a.Pre:
		first = b.BatchIdx < a.BatchIdx
	case b.Pre:
		first = true
	case a.Pre:
		first = false
	default:
		first = b.Add.Ret >= 0 && b.Add.Ret < a.Add.Call
	}
	switch ix.QKinds[b.Q] {
	case "std", "pers", "dist":
		return first
	default:
		if b.It == nil || a.It == nil {
			return false
		}
		if b.It.Prio != a.It.Prio {
			return b.It.Prio < a.It.Prio
		}
		return first
	}
}

func oC04(ix *Index) []Violation {
	var out []Violation
	if len(ix.C.Cfg.Consumers) > 0 {
		return nil
	}
	conc1 := resolveConc(ix.C.Cfg.Conc) == 1 && len(ix.ByOp["tune"]) == 0
	prevExit := -1
	inQueueBy := func(b *JobRec) int { // position by which b is certainly in the queue
		if b.Pre {
			return -1
		}
		if b.Add.Ret < 0 {
			return ix.N + 1
		}
		return b.Add.Ret
	}
	byQ := map[int][]*JobRec{}
	for _, n := range ix.JobNums {
		b := ix.Jobs[n]
		if b.Accepted == 1 && b.It != nil {
			byQ[b.Q] = append(byQ[b.Q], b)
		}
	}
	check := func(a *JobRec, lower int, at int, what string) bool {
		for _, b := range byQ[a.Q] {
			if b == a || b.firstEnter(ix.N) < at || inQueueBy(b) >= lower {
				continue
			}
			if ix.orderedBefore(b, a) && !ix.optional(b, at) {
				out = append(out, v("C04", what, "job %d (prio %d) started at %d while job %d (prio %d) of the same queue %d was pending and ahead of it (accepted by %d)", a.N, a.It.Prio, at, b.N, b.It.Prio, a.Q, inQueueBy(b)))
				return true
			}
		}
		return false
	}
	if conc1 {
		for pos, ev := range ix.H {
			if ev.W != 0 {
				continue
			}
			if ev.K == "exit" {
				prevExit = pos
			}
			if ev.K != "enter" {
				continue
			}
			a := ix.Jobs[ev.J]
			if a.It == nil {
				continue
			}
			lower := a.Add.Call
			if a.Pre {
				lower = 0
			}
			if prevExit > lower {
				lower = prevExit
			}
			if check(a, lower, pos, "order") {
				return out
			}
		}
		return out
	}
	// concurrency n: at quiescent points the started jobs form a prefix
	for _, p := range ix.Quiesc {
		for _, n := range ix.JobNums {
			a := ix.Jobs[n]
			if len(a.Enters) == 0 || a.Enters[0] > p || a.It == nil {
				continue
			}
			lower := a.Add.Call
			if a.Pre {
				lower = 0
			}
			for _, m := range ix.JobNums {
				b := ix.Jobs[m]
				if b == a || b.Accepted != 1 || b.firstEnter(ix.N) < p || ix.optional(b, p) {
					continue
				}
				if inQueueBy(b) < lower && ix.orderedBefore(b, a) {
					out = append(out, v("C04", "prefix", "at quiescent point %d job %d has started but job %d, ahead of it in queue %d and accepted before it was submitted, has not", p, a.N, b.N, a.Q))
					return out
				}
			}
		}
	}
	return out
}

// ---------------------------------------------------------------- C05

func (ix *Index) doneBefore(j *JobRec, r int) bool {
	if len(j.Exits) > 0 && j.Exits[0] < r {
		return true
	}
	if len(j.Enters) > 0 && j.Enters[0] < r {
		// the worker function is executing at r: no cancel, purge or rejection can excuse the return
		return false
	}
	if j.Accepted != 1 {
		return true
	}
	for _, cl := range j.Closes {
		if cl.Call < r && (!cl.Returned() || cl.RetEv.OK) {
			return true
		}
	}
	for _, p := range ix.Purges[j.Q] {
		if p.Call < r && p.end(ix.N) > j.Add.Call {
			return true
		}
	}
	return false
}

// certainlyDone: the job has finished or was certainly cancelled
func (ix *Index) certainlyReleased(j *JobRec) bool {
	if len(j.Exits) > 0 {
		return true
	}
	return j.cancelledBy() != nil
}

func oC05(ix *Index) []Violation {
	var out []Violation
	for _, n := range ix.JobNums {
		j := ix.Jobs[n]
		for _, w := range j.Waits {
			if w.Returned() && !ix.doneBefore(j, w.Ret) {
				out = append(out, v("C05", "early", "%s on job %d returned at %d before the job finished (enters %v exits %v) and without cancel/purge", w.Op, n, w.Ret, j.Enters, j.Exits))
			}
		}
	}
	for _, g := range ix.Groups {
		for _, w := range g.Waits {
			if !w.Returned() {
				continue
			}
			for _, n := range g.Items {
				if !ix.doneBefore(ix.Jobs[n], w.Ret) {
					out = append(out, v("C05", "early-batch", "batch %d Wait returned at %d before item %d finished", g.G, w.Ret, n))
					break
				}
			}
		}
	}
	if ix.R.Rep.Deadlock {
		for _, c := range ix.blockedCalls() {
			switch c.Op {
			case "wait", "result", "err":
				if j := ix.Jobs[c.J]; j != nil && ix.certainlyReleased(j) {
					out = append(out, v("C05", "stuck-waiter", "client %d blocked forever in %s on job %d which has finished/was cancelled (exits %v)", c.C, c.Op, c.J, j.Exits))
				}
			case "gwait":
				g := ix.Groups[c.G]
				all := g != nil
				if g != nil {
					for _, n := range g.Items {
						j := ix.Jobs[n]
						if !(len(j.Exits) > 0 || j.Accepted == 0) {
							all = false
						}
					}
				}
				if all {
					out = append(out, v("C05", "stuck-batch-waiter", "client %d blocked forever in batch %d Wait although every item finished or was rejected", c.C, c.G))
				}
			}
		}
	}
	return out
}

// ---------------------------------------------------------------- C06

func oC06(ix *Index) []Violation {
	var out []Violation
	for _, w := range ix.ByOp["wuf"] {
		if !w.Returned() || !ix.lifeSequentialBefore(w.Call) || ix.modelState(w.Call) != "Running" {
			continue
		}
		stable := true
		for _, c := range ix.Life {
			if c.Op != "tune" && c.Call < w.Ret && c.end(ix.N) > w.Call {
				stable = false
			}
		}
		if !stable || ix.ctxCancelledBefore(w.Ret) {
			continue
		}
		for _, n := range ix.JobNums {
			j := ix.Jobs[n]
			if j.Accepted != 1 || (!j.Pre && (j.Add.Ret < 0 || j.Add.Ret > w.Call)) || ix.optional(j, w.Ret) {
				continue
			}
			if len(j.Exits) == 0 || j.Exits[0] > w.Ret {
				out = append(out, v("C06", "wuf-early", "WaitUntilFinished [%d,%d] returned although job %d, accepted at %d, had not finished (enters %v exits %v)", w.Call, w.Ret, n, j.Add.Ret, j.Enters, j.Exits))
				break
			}
		}
	}
	for _, op := range []string{"pausewait", "stop", "waitstop"} {
		for _, b := range ix.ByOp[op] {
			if !b.Returned() || b.RetEv.E != "" {
				continue
			}
			// a Resume or Restart issued by another caller while the barrier call is in progress may
			// legitimately put jobs back in flight before it returns
			revived := false
			for _, c := range ix.Life {
				if (c.Op == "resume" || c.Op == "restart") && c.Call < b.Ret && c.end(ix.N) > b.Call {
					revived = true
				}
			}
			if revived {
				continue
			}
			for _, n := range ix.JobNums {
				j := ix.Jobs[n]
				for i, en := range j.Enters {
					if j.EnterEvs[i].W != 0 || en > b.Ret {
						continue
					}
					if i >= len(j.Exits) || j.Exits[i] > b.Ret {
						out = append(out, v("C06", "barrier-spans", "%s returned at %d while job %d (entered at %d) was still executing", op, b.Ret, n, en))
					}
				}
			}
		}
	}
	if ix.R.Rep.Deadlock {
		for _, c := range ix.blockedCalls() {
			switch c.Op {
			case "wuf", "pausewait", "stop", "waitstop", "restart":
				out = append(out, v("C06", "barrier-stuck", "client %d blocked forever in %s (called at %d); goroutines %v", c.C, c.Op, c.Call, ix.R.Rep.Blocked))
			}
		}
	}
	return out
}

// lifeSequentialBefore: no two lifecycle calls begun before pos overlapped each other, so the
// sequential state model is meaningful at pos.
func (ix *Index) lifeSequentialBefore(pos int) bool {
	for i, a := range ix.Life {
		if a.Call >= pos {
			break
		}
		for _, b := range ix.Life[i+1:] {
			if b.Call >= pos {
				break
			}
			if b.Call < a.end(ix.N) && a.C != b.C {
				return false
			}
		}
	}
	return true
}

// ---------------------------------------------------------------- C07

func outcomeErrOK(it *Item, kind string, e string) bool {
	switch it.Out {
	case OutVal:
		return e == ""
	case OutErr:
		if kind == "plain" {
			return e == ""
		}
		return e == errFor(it.N).Error()
	case OutPanicStr, OutPanicStruct:
		return strings.Contains(e, panicStrFor(it.N))
	case OutPanicErr:
		return strings.Contains(e, fmt.Sprintf("PE%d-harness", it.N))
	case OutPanicNil:
		return strings.Contains(e, "nil pointer")
	}
	return false
}

func oC07(ix *Index) []Violation {
	var out []Violation
	kind := ix.C.Cfg.Kind
	for _, n := range ix.JobNums {
		j := ix.Jobs[n]
		if j.It == nil {
			continue
		}
		for _, ev := range j.EnterEvs {
			if !expectedIDOK(ix, j, ev.S) {
				out = append(out, v("C07", "wrong-id", "job %d: worker function saw ID %q (item %+v)", n, ev.S, *j.It))
			}
			if ev.D != j.It.S {
				out = append(out, v("C07", "wrong-data", "job %d: worker function saw data %q want %q", n, ev.D, j.It.S))
			}
		}
		if len(j.Enters) > 1 && len(ix.C.Faults) == 0 {
			out = append(out, v("C07", "payload-of-another-job", "the worker function was invoked %d times with the ID and data of job %d, which was submitted once: some other job reached it carrying this job's content (%s)", len(j.Enters), n, ix.describe(j.Enters...)))
		}
		if j.Add.Op == "add" && j.Add.Returned() && j.Add.RetEv.OK && len(j.EnterEvs) > 0 && j.Add.RetEv.S != j.EnterEvs[0].S && ix.QKinds[j.Q] != "pers" && ix.QKinds[j.Q] != "persprio" && ix.QKinds[j.Q] != "dist" && ix.QKinds[j.Q] != "distprio" {
			out = append(out, v("C07", "handle-id", "job %d: handle ID %q differs from ID seen by the worker function %q", n, j.Add.RetEv.S, j.EnterEvs[0].S))
		}
		for _, w := range j.Waits {
			if !w.Returned() || w.Op == "wait" {
				continue
			}
			executed := len(j.Exits) > 0 && j.Exits[0] < w.Ret
			if !executed {
				continue
			}
			if w.Op == "result" {
				if j.It.Out == OutVal && (w.RetEv.E != "" || int(w.RetEv.I) != valFor(n)) {
					out = append(out, v("C07", "wrong-result", "Result() of job %d returned (%d,%q), want (%d,nil)", n, w.RetEv.I, w.RetEv.E, valFor(n)))
				}
				if j.It.Out != OutVal && !outcomeErrOK(j.It, kind, w.RetEv.E) {
					out = append(out, v("C07", "wrong-result", "Result() of job %d (outcome %d) returned (%d,%q)", n, j.It.Out, w.RetEv.I, w.RetEv.E))
				}
			}
			if w.Op == "err" && !outcomeErrOK(j.It, kind, w.RetEv.E) {
				out = append(out, v("C07", "wrong-err", "Err() of job %d (outcome %d) returned %q", n, j.It.Out, w.RetEv.E))
			}
		}
	}
	// batch stream items carry their own job's outcome
	for _, g := range ix.Groups {
		for _, it := range g.ItemEvs {
			if kind != "res" {
				continue
			}
			j := streamJob(ix, g, it)
			if j == nil {
				if !strings.Contains(it.E, "nil pointer") {
					out = append(out, v("C07", "batch-foreign-result", "batch %d delivered (%d,%q) tagged %q, which is no item's outcome", g.G, it.I, it.E, it.S))
				}
				continue
			}
			if !expectedIDOK(ix, j, it.S) {
				out = append(out, v("C07", "batch-wrong-tag", "batch %d: the outcome of item %d (id %q) is tagged %q", g.G, j.N, j.It.ID, it.S))
			}
			if j.It.Out == OutVal && (it.E != "" || int(it.I) != valFor(j.N)) {
				out = append(out, v("C07", "batch-wrong-result", "batch %d result of item %d is (%d,%q), want (%d,nil)", g.G, j.N, it.I, it.E, valFor(j.N)))
			}
			if j.It.Out != OutVal && !outcomeErrOK(j.It, kind, it.E) {
				out = append(out, v("C07", "batch-wrong-result", "batch %d result of item %d (outcome %d) is (%d,%q)", g.G, j.N, j.It.Out, it.I, it.E))
			}
		}
	}
	// errors offered on Errs() that carry a harness marker belong to a job that failed with it
	for _, ev := range ix.WErrs {
		ok := !strings.Contains(ev.E, "-harness")
		for _, n := range ix.JobNums {
			j := ix.Jobs[n]
			if j.It != nil && j.It.Out != OutVal && len(j.Exits) > 0 && outcomeErrOK(j.It, kind, ev.E) && !(kind == "plain" && j.It.Out == OutErr) {
				ok = true
			}
		}
		if !ok {
			out = append(out, v("C07", "errs-foreign", "Errs() delivered %q which no failed job produced", ev.E))
		}
	}
	// metrics at rest
	if ix.Completed && ix.Final != nil && ix.Final.OKSnap && ix.Final.InFlight == 0 {
		var succ, fail uint64
		for _, n := range ix.JobNums {
			j := ix.Jobs[n]
			if j.It == nil {
				continue
			}
			for range j.Exits {
				if j.It.Out == OutVal || (kind == "plain" && j.It.Out == OutErr) {
					succ++
				} else {
					fail++
				}
			}
		}
		if ix.Final.Success != succ || ix.Final.Failed != fail {
			out = append(out, v("C07", "metrics", "at rest Successful=%d Failed=%d, outcome assignment gives %d/%d", ix.Final.Success, ix.Final.Failed, succ, fail))
		}
	}
	out = append(out, oCrash("C07")(ix)...)
	return out
}

// streamJob identifies the batch item a stream element belongs to by its content (the value and
// the error texts are pure functions of the job number), independently of the tag it carries.
func streamJob(ix *Index, g *GroupRec, it Ev) *JobRec {
	n := -1
	if it.E == "" {
		if (it.I-1)%7 != 0 {
			return nil
		}
		n = int((it.I - 1) / 7)
	} else {
		for _, m := range g.Items {
			for _, pat := range []string{fmt.Sprintf("E%d-harness", m), fmt.Sprintf("P%d-harness", m), fmt.Sprintf("PE%d-harness", m)} {
				if strings.Contains(it.E, pat) && (len(it.E) == strings.Index(it.E, pat)+len(pat) || it.E[strings.Index(it.E, pat)+len(pat)] < '0' || it.E[strings.Index(it.E, pat)+len(pat)] > '9') {
					if strings.Index(it.E, pat) == 0 || it.E[strings.Index(it.E, pat)-1] < '0' || it.E[strings.Index(it.E, pat)-1] > '9' {
						n = m
					}
				}
			}
		}
	}
	for _, m := range g.Items {
		if m == n {
			return ix.Jobs[m]
		}
	}
	return nil
}

// ---------------------------------------------------------------- C08

func (ix *Index) itemDoneBy(j *JobRec, r int) bool { return ix.doneBefore(j, r) }

func oC08(ix *Index) []Violation {
	var out []Violation
	kind := ix.C.Cfg.Kind
	for _, gn := range sortedGroupNums(ix) {
		g := ix.Groups[gn]
		n := len(g.Items)
		for _, c := range g.Consume {
			if !c.Returned() {
				continue
			}
			// everything read by this consumer until the close
			var got []Ev
			for i, p := range g.ItemPos {
				if p > c.Call && p < c.Ret && g.ItemEvs[i].C == c.C {
					got = append(got, g.ItemEvs[i])
				}
			}
			if len(g.Consume) != 1 {
				continue // several consumers share the stream: only the union is determined
			}
			executed := map[int]*JobRec{}
			for _, m := range g.Items {
				j := ix.Jobs[m]
				if len(j.Exits) > 0 {
					executed[m] = j
				}
			}
			if kind == "res" {
				seen := map[int]int{}
				for _, it := range got {
					j := streamJob(ix, g, it)
					if j == nil {
						out = append(out, v("C08", "stream-extra", "batch %d stream delivered (%d,%q) tagged %q, which no item of the batch produces", g.G, it.I, it.E, it.S))
						continue
					}
					seen[j.N]++
					if len(j.Exits) == 0 {
						out = append(out, v("C08", "stream-extra", "batch %d stream delivered a result of item %d, which was not executed", g.G, j.N))
					}
					if !expectedIDOK(ix, j, it.S) {
						out = append(out, v("C08", "stream-tag", "batch %d: the result of item %d (id %q) is tagged %q", g.G, j.N, j.It.ID, it.S))
					}
				}
				tags := map[string]int{}
				for _, it := range got {
					tags[it.S]++
				}
				for n, k := range seen {
					if k != 1 {
						out = append(out, v("C08", "stream-dup", "batch %d stream delivered %d results for item %d", g.G, k, n))
					}
				}
				for _, j := range executed {
					if seen[j.N] == 0 && j.Exits[0] < c.Ret && j.It.Out != OutPanicNil {
						out = append(out, v("C08", "stream-missing", "batch %d stream was closed without a result for executed item %d", g.G, j.N))
					}
					// generated IDs are per job: two items may not share one
					if j.It.ID == "" && ix.C.Cfg.IDGen && len(j.EnterEvs) > 0 && tags[j.EnterEvs[0].S] > 1 {
						out = append(out, v("C08", "stream-tag", "batch %d: %d results carry the generated tag %q", g.G, tags[j.EnterEvs[0].S], j.EnterEvs[0].S))
					}
				}
			}
			if kind == "err" {
				want := 0
				late := 0
				for _, j := range executed {
					if j.It.Out != OutVal {
						if j.Exits[0] < c.Ret {
							want++
						} else {
							late++
						}
					}
				}
				if len(got) < want || len(got) > want+late {
					out = append(out, v("C08", "stream-errcount", "batch %d error stream delivered %d errors, %d items failed", g.G, len(got), want))
				}
			}
		}
		// NumPending samples
		var prev *CallRec
		for i := range g.Pending {
			s := g.Pending[i]
			if !s.Returned() {
				continue
			}
			val := int(s.RetEv.I)
			if val < 0 || val > n {
				out = append(out, v("C08", "numpending-range", "batch %d NumPending=%d outside [0,%d]", g.G, val, n))
			}
			done := 0
			for _, m := range g.Items {
				if ix.itemDoneBy(ix.Jobs[m], s.Ret) {
					done++
				}
			}
			if val < n-done {
				out = append(out, v("C08", "numpending-low", "batch %d NumPending=%d at [%d,%d] but only %d of %d items can have finished", g.G, val, s.Call, s.Ret, done, n))
			}
			for _, w := range g.Waits {
				if w.Returned() && w.Ret < s.Call && val != 0 {
					out = append(out, v("C08", "numpending-after-wait", "batch %d NumPending=%d after its Wait returned at %d", g.G, val, w.Ret))
				}
			}
			if prev != nil && prev.Ret < s.Call && val > int(prev.RetEv.I) {
				out = append(out, v("C08", "numpending-up", "batch %d NumPending went up from %d to %d", g.G, prev.RetEv.I, val))
			}
			prev = &g.Pending[i]
		}
	}
	if ix.R.Rep.Deadlock {
		for _, c := range ix.blockedCalls() {
			if c.Op != "gconsume" {
				continue
			}
			g := ix.Groups[c.G]
			all := true
			for _, m := range g.Items {
				j := ix.Jobs[m]
				if !(len(j.Exits) > 0 || j.Accepted == 0) {
					all = false
				}
			}
			if all {
				out = append(out, v("C08", "stream-not-closed", "batch %d (%d items): every item finished or was rejected but the stream was never closed; consumer blocked", c.G, len(g.Items)))
			}
		}
	}
	if has(ix.C, "addall") {
		out = append(out, oCrash("C08")(ix)...)
	}
	return out
}

func sortedGroupNums(ix *Index) []int {
	var gs []int
	for g := range ix.Groups {
		gs = append(gs, g)
	}
	for i := 1; i < len(gs); i++ {
		for j := i; j > 0 && gs[j] < gs[j-1]; j-- {
			gs[j], gs[j-1] = gs[j-1], gs[j]
		}
	}
	return gs
}

// ---------------------------------------------------------------- C09

func (ix *Index) nextResume(after int) int {
	best := ix.N
	for _, op := range []string{"resume", "restart"} {
		for _, c := range ix.ByOp[op] {
			if c.Call > after && c.Call < best {
				best = c.Call
			}
		}
	}
	return best
}

func oC09(ix *Index) []Violation {
	var out []Violation
	for _, op := range []string{"pausewait", "stop", "waitstop"} {
		for _, b := range ix.ByOp[op] {
			if !b.Returned() || b.RetEv.E != "" {
				continue
			}
			end := ix.nextResume(b.Ret)
			for p := b.Ret + 1; p < end; p++ {
				if ev := ix.H[p]; ev.K == "enter" && ev.W == 0 {
					out = append(out, v("C09", "start-after-barrier", "%s returned at %d (status %s) but job %d started at %d, before the next Resume/Restart (at %d)", op, b.Ret, b.RetEv.St, ev.J, p, end))
					break
				}
			}
		}
	}
	for _, b := range ix.ByOp["pause"] {
		if !b.Returned() || b.RetEv.E != "" || b.RetEv.St != "Paused" {
			continue
		}
		end := ix.nextResume(b.Ret)
		infl := 0
		for p := 0; p < b.Ret; p++ {
			if ix.H[p].W != 0 {
				continue
			}
			if ix.H[p].K == "enter" {
				infl++
			} else if ix.H[p].K == "exit" {
				infl--
			}
		}
		starts := 0
		for p := b.Ret + 1; p < end; p++ {
			if ev := ix.H[p]; ev.K == "enter" && ev.W == 0 {
				starts++
			}
		}
		if lim := ix.maxLimit(0, end-1); starts > lim-infl {
			out = append(out, v("C09", "pause-overrun", "after Pause returned at %d with %d in flight, %d more jobs started before the next Resume (limit %d)", b.Ret, infl, starts, lim))
		}
	}
	return out
}

// ---------------------------------------------------------------- C10

func oC10(ix *Index) []Violation {
	var out []Violation
	for _, n := range ix.JobNums {
		j := ix.Jobs[n]
		nilCloses := 0
		var firstNil *CallRec
		for i := range j.Closes {
			cl := &j.Closes[i]
			if !cl.Returned() {
				continue
			}
			if cl.RetEv.OK {
				nilCloses++
				if firstNil == nil {
					firstNil = cl
				}
				if len(j.Enters) > 0 && cl.Ret < j.Enters[0] {
					out = append(out, v("C10", "cancelled-ran", "Close of job %d returned nil at %d but the job started at %d", n, cl.Ret, j.Enters[0]))
				}
			}
			if len(j.Enters) > 0 && len(j.Exits) > 0 && cl.Call > j.Enters[0] && cl.Ret < j.Exits[0] && cl.RetEv.E != "ErrJobProcessing" {
				out = append(out, v("C10", "close-while-processing", "Close of job %d during its execution [%d,%d] returned %q", n, j.Enters[0], j.Exits[0], cl.RetEv.E))
			}
		}
		for i := range j.Closes {
			cl := &j.Closes[i]
			if cl.Returned() && firstNil != nil && cl.Call > firstNil.Ret && cl.RetEv.E != "ErrJobAlreadyClosed" {
				out = append(out, v("C10", "close-twice", "Close of job %d called at %d after an earlier Close returned nil at %d returned %q", n, cl.Call, firstNil.Ret, cl.RetEv.E))
			}
		}
		if nilCloses > 1 {
			out = append(out, v("C10", "double-cancel", "%d Close calls on job %d returned nil", nilCloses, n))
		}
	}
	// queue close: later submissions are rejected
	for q, qcs := range ix.QCloses {
		for _, qc := range qcs {
			if !qc.Returned() {
				continue
			}
			for _, a := range ix.ByOp["add"] {
				if a.Q == q && a.Call > qc.Ret && a.Returned() && a.RetEv.OK {
					out = append(out, v("C10", "add-after-close", "queue %d was closed at %d but Add at %d was accepted", q, qc.Ret, a.Call))
				}
			}
			for _, g := range ix.Groups {
				if g.Q == q && g.Add.Call > qc.Ret {
					for _, m := range g.Items {
						if len(ix.Jobs[m].Enters) > 0 {
							out = append(out, v("C10", "addall-after-close", "queue %d was closed at %d but item %d of a later AddAll ran", q, qc.Ret, m))
						}
					}
				}
			}
		}
	}
	// no accepted job is left in limbo: at rest every handle reads Closed
	if ix.finalRunning() && !ix.R.Rep.Deadlock && ix.Final.OKSnap {
		pend := 0
		for _, p := range ix.Final.QPending {
			pend += p
		}
		for n, st := range ix.Final.JobSt {
			j := ix.Jobs[n]
			if st == "" || j == nil || pend != 0 {
				continue
			}
			if len(j.Enters) == 0 && st != "Closed" {
				out = append(out, v("C10", "limbo", "job %d was accepted, never ran, is not pending any more (queues empty) and its handle reads %q: silently dropped", n, st))
			}
		}
	}
	// "jobs already pending still run": an accepted job of a closed queue that was neither cancelled
	// nor possibly purged has run once the (Running) worker is at rest
	if ix.finalRunning() && !ix.R.Rep.Deadlock {
		closedQ := map[int]bool{}
		for _, qc := range ix.ByOp["qclose"] {
			closedQ[qc.CallEv.Q] = true
		}
		for _, n := range ix.JobNums {
			j := ix.Jobs[n]
			if closedQ[j.Q] && j.Accepted == 1 && len(j.Enters) == 0 && !ix.optional(j, ix.N) {
				out = append(out, v("C10", "pending-on-closed-queue-never-ran", "job %d was accepted on queue %d, whose Close was called; it was never cancelled or purged, yet it never ran although the worker is Running and at rest; final=%+v", n, j.Q, *ix.Final))
			}
		}
	}
	if ix.R.Rep.Deadlock {
		for _, c := range ix.blockedCalls() {
			if c.Op == "wait" || c.Op == "result" || c.Op == "err" {
				j := ix.Jobs[c.J]
				if j != nil && len(j.Enters) == 0 && (j.cancelledBy() != nil || ix.certainlyPurged(j)) {
					out = append(out, v("C10", "waiter-not-released", "job %d was cancelled/purged but client %d is blocked forever in %s", c.J, c.C, c.Op))
				}
			}
		}
	}
	if has(ix.C, "close", "purge", "qclose") {
		out = append(out, oCrash("C10")(ix)...)
	}
	return out
}

// certainlyPurged: a purge ran entirely while the job was certainly pending and not startable
func (ix *Index) certainlyPurged(j *JobRec) bool {
	if j.Add.Ret < 0 || len(j.Enters) > 0 {
		return false
	}
	for _, p := range ix.Purges[j.Q] {
		if p.Returned() && p.Call > j.Add.Ret {
			return true
		}
	}
	return false
}

// ---------------------------------------------------------------- C16

var statusRank = map[string]int{"Created": 0, "Queued": 1, "Processing": 2, "Finished": 3, "Closed": 4}

func oC16(ix *Index) []Violation {
	var out []Violation
	type sample struct {
		lo, hi int
		st     string
		src    string
	}
	for _, n := range ix.JobNums {
		j := ix.Jobs[n]
		var ss []sample
		for _, s := range j.Status {
			if s.Returned() {
				ss = append(ss, sample{s.Call, s.Ret, s.RetEv.St, "Status()"})
			}
		}
		for i, ev := range j.EnterEvs {
			if ev.St != "" {
				ss = append(ss, sample{j.Enters[i], j.Enters[i], ev.St, "inside worker function (start)"})
				if ev.St != "Processing" {
					out = append(out, v("C16", "not-processing", "job %d reads %q at the start of its worker function", n, ev.St))
				}
			}
		}
		for i, ev := range j.ExitEvs {
			if ev.St != "" {
				ss = append(ss, sample{j.Exits[i], j.Exits[i], ev.St, "inside worker function (end)"})
				if ev.St != "Processing" {
					out = append(out, v("C16", "not-processing", "job %d reads %q at the end of its worker function", n, ev.St))
				}
			}
		}
		if ix.Completed && ix.Final != nil && n < len(ix.Final.JobSt) && ix.Final.JobSt[n] != "" {
			ss = append(ss, sample{ix.FinalPos, ix.FinalPos, ix.Final.JobSt[n], "final"})
		}
		for _, sn := range ix.snaps() {
			if n < len(sn.sn.JobSt) && sn.sn.JobSt[n] != "" {
				ss = append(ss, sample{sn.pos, sn.pos, sn.sn.JobSt[n], "settle snapshot"})
			}
		}
		for _, a := range ss {
			if _, ok := statusRank[a.st]; !ok {
				out = append(out, v("C16", "unknown-status", "job %d reads %q", n, a.st))
			}
			for _, b := range ss {
				if a.hi < b.lo && statusRank[b.st] < statusRank[a.st] {
					out = append(out, v("C16", "backwards", "job %d: status %q (%s at %d) was followed by %q (%s at %d)", n, a.st, a.src, a.hi, b.st, b.src, b.lo))
				}
			}
		}
		for _, w := range j.Waits {
			if !w.Returned() {
				continue
			}
			if w.Op == "wait" && w.RetEv.St != "" && w.RetEv.St != "Closed" {
				out = append(out, v("C16", "not-closed-after-wait", "job %d: Wait returned (call %d) and the status read right after it is %q", n, w.Call, w.RetEv.St))
			}
			for _, b := range ss {
				if b.lo > w.Ret && b.st != "Closed" {
					out = append(out, v("C16", "not-closed-after-wait", "job %d: %s returned at %d but %s at %d reads %q", n, w.Op, w.Ret, b.src, b.lo, b.st))
				}
			}
		}
	}
	return dedup(out)
}

type posSnap struct {
	pos int
	sn  *Snap
}

func (ix *Index) snaps() []posSnap {
	var out []posSnap
	for _, op := range []string{"settle", "snap"} {
		for _, c := range ix.ByOp[op] {
			if c.Returned() && c.RetEv.Sn != nil && c.RetEv.Sn.OKSnap {
				out = append(out, posSnap{c.Ret, c.RetEv.Sn})
			}
		}
	}
	return out
}

func dedup(vs []Violation) []Violation {
	seen := map[string]bool{}
	var out []Violation
	for _, x := range vs {
		k := x.Oracle + x.Witness
		if !seen[k] {
			seen[k] = true
			out = append(out, x)
		}
	}
	return out
}
