package vharness

import (
	"pgregory.net/rapid"
)

var allKinds = []string{"plain", "err", "res"}
var allQKinds = []string{"std", "prio", "pers", "persprio", "dist", "distprio"}
var memQKinds = []string{"std", "prio"}

func scale(thorough bool, q, th int) int {
	if thorough {
		return th
	}
	return q
}

func classesOf(ix *Index) []string {
	var cl []string
	add := func(b bool, s string) {
		if b {
			cl = append(cl, s)
		}
	}
	c := ix.C
	add(true, "kind:"+c.Cfg.Kind)
	add(true, "sched:"+c.Sched.Strategy)
	add(c.Cfg.ExpiryUs > 0, "expiry")
	add(len(c.Cfg.Queues) > 1, "multiqueue")
	add(len(ix.ByOp["addall"]) > 0, "batch")
	add(len(ix.ByOp["close"]) > 0, "close")
	add(len(ix.ByOp["purge"]) > 0, "purge")
	add(len(ix.Life) > 0, "lifecycle")
	add(len(ix.ByOp["tune"]) > 0, "tune")
	add(ix.R.Rep.Switches > 20, "switches>20")
	add(len(ix.JobNums) > 1000, "burst>1000")
	// a job dispatched before its Add returned
	for _, n := range ix.JobNums {
		j := ix.Jobs[n]
		if len(j.Enters) > 0 && j.Add.Ret > j.Enters[0] {
			cl = append(cl, "enter-before-add-ret")
			break
		}
	}
	return cl
}

// overlap reports whether some call of the given ops overlaps the life of a job (submission .. exit).
func (ix *Index) controlDuringJobs(ops ...string) bool {
	for _, op := range ops {
		for _, c := range ix.ByOp[op] {
			out := 0
			for _, n := range ix.JobNums {
				j := ix.Jobs[n]
				s := j.Add.Call
				e := ix.N
				if len(j.Exits) > 0 {
					e = j.Exits[0]
				}
				if j.Accepted == 1 && s < c.end(ix.N) && e > c.Call {
					out++
				}
			}
			if out >= 2 {
				return true
			}
		}
	}
	return false
}

func init() {
	// ------------------------------------------------------------------ C01
	register(&Spec{Prop: "C01",
		Gen: func(t *rapid.T, th bool) *Case {
			pf := &Profile{Strategies: []int{0, 0, 1, 2}, WQueueProb: 10, Kinds: allKinds, QKinds: allQKinds, MaxQueues: 2, Concs: []int{1, 2, 3, 4}, Expiry: []int{0, 0, 0, 60, 1000}, Ratio: []int{0, 0, 20, 50, 100},
				IDGenProb: 30, ErrsReader: 30, MinClients: 1, MaxClients: 3, MaxOps: scale(th, 7, 14),
				Ops:     map[string]int{"add": 30, "addall": 8, "addmany": 8, "wait": 8, "close": 8, "purge": 3, "sleep": 6, "qclose": 1, "release": 3, "yield": 3},
				Ctrl:    map[string]int{"pause": 3, "pausewait": 3, "resume": 4, "stop": 2, "restart": 3, "tune": 5, "sleep": 3},
				MaxCtrl: scale(th, 4, 8), GatedProb: 20, Outs: []int{OutVal, OutVal, OutErr, OutPanicStr}, MaxBatch: 5, BurstProb: scale(th, 4, 15)}
			return genProgram(t, "C01", pf, th)
		},
		Oracles: []oracleFn{oC01},
		Foreign: []oracleFn{oCrash("*"), oDeadlock("C03"), oLivelock("C03")},
		NonTrivial: func(ix *Index) (bool, []string) {
			cl := classesOf(ix)
			nt := ix.controlDuringJobs("pause", "pausewait", "resume", "stop", "restart", "tune", "close", "purge") || (ix.C.Cfg.ExpiryUs > 0 && len(ix.JobNums) >= 2)
			return nt, cl
		}})

	// ------------------------------------------------------------------ C02
	register(&Spec{Prop: "C02",
		Gen: func(t *rapid.T, th bool) *Case {
			pf := &Profile{Kinds: allKinds, QKinds: memQKinds, MaxQueues: 2, Concs: []int{1, 2, 3, 4, 2, 3, 0}, Expiry: []int{0, 0, 0, 1000},
				MinClients: 1, MaxClients: 2, MaxOps: scale(th, 8, 14),
				// Pause/Resume also come from ordinary clients, concurrently with the controller's calls
				Ops:     map[string]int{"add": 30, "addmany": 12, "settle": 6, "release": 8, "sleep": 3, "yield": 3, "resume": 4, "pause": 1, "nconc": 3},
				Ctrl:    map[string]int{"pause": 2, "pausewait": 2, "resume": 4, "restart": 4, "tune": 10, "bind": 3, "settle": 6, "stop": 1},
				MaxCtrl: scale(th, 5, 10), GatedProb: 80, MaxBatch: 5}
			return genProgram(t, "C02", pf, th)
		},
		Oracles: []oracleFn{oC02, oC02Tune, oC02Limit},
		Foreign: []oracleFn{oCrash("*"), oDeadlock("C03"), oLivelock("C03")},
		NonTrivial: func(ix *Index) (bool, []string) {
			cl := classesOf(ix)
			sat := false
			for _, p := range ix.Quiesc {
				if sn := ix.H[p].Sn; sn != nil && sn.InFlight >= ix.curLimit(p) && sn.InFlight > 0 {
					sat = true
				}
			}
			if sat {
				cl = append(cl, "saturated")
			}
			return sat && len(ix.Life) > 0, cl
		}})

	// ------------------------------------------------------------------ C03
	register(&Spec{Prop: "C03",
		Gen: func(t *rapid.T, th bool) *Case {
			pf := &Profile{Strategies: []int{0, 0, 1, 2}, WQueueProb: 10, Kinds: allKinds, QKinds: allQKinds, MaxQueues: 2, Concs: []int{1, 2, 3, 4}, Expiry: []int{0, 0, 60, 1000}, Ratio: []int{0, 0, 20, 100},
				ErrsReader: 40, MinClients: 1, MaxClients: 3, MaxOps: scale(th, 7, 14),
				Ops:     map[string]int{"add": 30, "addall": 6, "addmany": 8, "wait": 6, "close": 8, "purge": 2, "sleep": 8, "release": 4, "settle": 3, "yield": 3},
				Ctrl:    map[string]int{"pause": 3, "resume": 4, "tune": 8, "sleep": 4, "settle": 2},
				MaxCtrl: scale(th, 4, 8), GatedProb: 35, Outs: []int{OutVal, OutVal, OutErr, OutPanicStr}, MaxBatch: 5}
			return genProgram(t, "C03", pf, th)
		},
		Oracles: []oracleFn{oC03},
		Foreign: []oracleFn{oCrash("*")},
		NonTrivial: func(ix *Index) (bool, []string) {
			cl := classesOf(ix)
			nt := false
			for _, p := range ix.Quiesc {
				if sn := ix.H[p].Sn; sn != nil && sn.WPending > 0 && sn.InFlight > 0 {
					nt = true
				}
			}
			if nt {
				cl = append(cl, "pending-while-saturated")
			}
			return nt || ix.controlDuringJobs("tune", "close", "pause"), cl
		}})

	// ------------------------------------------------------------------ C04 (worker part; the queue part is in vseq)
	register(&Spec{Prop: "C04",
		Gen: func(t *rapid.T, th bool) *Case {
			pf := &Profile{Kinds: allKinds, QKinds: []string{"std", "prio", "std", "prio", "pers", "persprio"}, MaxQueues: 1, Concs: []int{1, 1, 1, 2, 3}, MinClients: 1, MaxClients: 2, MaxOps: scale(th, 8, 14),
				Ops:     map[string]int{"add": 30, "addall": 8, "addmany": 12, "purge": 2, "settle": 3, "release": 4, "yield": 3},
				Ctrl:    map[string]int{"pausewait": 4, "resume": 4, "settle": 2},
				MaxCtrl: 4, GatedProb: 25, MaxBatch: 6, BurstProb: scale(th, 10, 30), Prios: []int{0, 0, 1, 1, 2, -1, -1, 5, -9223372036854775808, 9223372036854775807}, StartPausedProb: 40}
			c := genProgram(t, "C04", pf, th)
			// persistent queues: some acknowledgements are slow (they complete only when nothing else can
			// run), so a pool worker stays busy in its completion path while later jobs are handed out
			if k := c.Cfg.Queues[0]; (k == "pers" || k == "persprio") && rapid.Bool().Draw(t, "slowacks") {
				for i := 0; i < rapid.IntRange(1, 3).Draw(t, "nslow"); i++ {
					c.Faults = append(c.Faults, Fault{Method: "AckGate", K: rapid.IntRange(1, 4).Draw(t, "slowk")})
				}
			}
			return c
		},
		Oracles: []oracleFn{oC04},
		Foreign: []oracleFn{oCrash("*"), oDeadlock("C03"), oLivelock("C03")},
		NonTrivial: func(ix *Index) (bool, []string) {
			cl := classesOf(ix)
			eq := false
			seen := map[int]bool{}
			for _, n := range ix.JobNums {
				if j := ix.Jobs[n]; j.It != nil && ix.QKinds[j.Q] == "prio" {
					if seen[j.It.Prio] {
						eq = true
					}
					seen[j.It.Prio] = true
				}
			}
			if eq {
				cl = append(cl, "equal-priorities")
			}
			return len(ix.JobNums) >= 3, cl
		}})

	// ------------------------------------------------------------------ C05
	register(&Spec{Prop: "C05",
		Gen: func(t *rapid.T, th bool) *Case {
			pf := &Profile{WQueueProb: 25, Kinds: allKinds, QKinds: memQKinds, MaxQueues: 1, Concs: []int{1, 2, 3}, MinClients: 2, MaxClients: 4, MaxOps: scale(th, 7, 12),
				Ops:     map[string]int{"add": 25, "addall": 8, "wait": 15, "result": 15, "gwait": 8, "drain": 2, "close": 5, "purge": 2, "release": 5, "yield": 3},
				Ctrl:    map[string]int{"pause": 2, "resume": 3},
				MaxCtrl: 3, GatedProb: 40, Outs: []int{OutVal, OutErr, OutPanicStr}, MaxBatch: 4}
			c := genProgram(t, "C05", pf, th)
			addCloseScenario(t, c, 5)
			addBigFailingBatch(t, c, 8)
			return c
		},
		Oracles: []oracleFn{oC05, completionBlocked("C05")},
		Foreign: []oracleFn{oCrash("*"), oDeadlock("C03"), oLivelock("C03")},
		NonTrivial: func(ix *Index) (bool, []string) {
			cl := classesOf(ix)
			nt := false
			for _, n := range ix.JobNums {
				j := ix.Jobs[n]
				if len(j.Waits) >= 2 {
					nt = true
				}
				for _, w := range j.Waits {
					if len(j.Enters) > 0 && w.Call < j.Enters[0] {
						nt = true
						cl = append(cl, "waiter-before-dispatch")
					}
				}
			}
			return nt, dedupS(cl)
		}})

	// ------------------------------------------------------------------ C06
	register(&Spec{Prop: "C06",
		Gen: func(t *rapid.T, th bool) *Case {
			pf := &Profile{WQueueProb: 10, Kinds: allKinds, QKinds: memQKinds, MaxQueues: 2, Concs: []int{1, 2, 3}, MinClients: 1, MaxClients: 3, MaxOps: scale(th, 7, 12),
				Ops:     map[string]int{"add": 30, "addmany": 6, "wuf": 16, "close": 8, "purge": 3, "release": 4, "yield": 3},
				Ctrl:    map[string]int{"pausewait": 4, "resume": 4, "stop": 2, "waitstop": 2, "restart": 2, "wuf": 4},
				MaxCtrl: scale(th, 4, 8), GatedProb: 25, MaxBatch: 4}
			// "several concurrent barrier callers": in one program in three ordinary clients call the
			// barriers too; nobody calls Resume or Restart while they run (the controller issues barrier
			// calls only and leaves the worker as it is; the epilogue restarts it when all clients are done)
			concurrentBarriers := rapid.IntRange(0, 2).Draw(t, "concurrentbarriers") == 0
			if concurrentBarriers {
				pf.Ops = map[string]int{"add": 30, "addmany": 6, "wuf": 10, "close": 4, "purge": 3, "release": 4, "yield": 3, "pausewait": 5, "stop": 4, "waitstop": 3}
				pf.Ctrl = map[string]int{"pausewait": 4, "stop": 3, "waitstop": 2, "wuf": 4}
				pf.MinClients = 2
			}
			c := genProgram(t, "C06", pf, th)
			c.Cfg.NoCtrlTail = concurrentBarriers
			return c
		},
		Oracles: []oracleFn{oC06},
		Foreign: []oracleFn{oCrash("*"), oDeadlock("C03"), oLivelock("C03")},
		NonTrivial: func(ix *Index) (bool, []string) {
			cl := classesOf(ix)
			nt := false
			for _, w := range ix.ByOp["wuf"] {
				for _, n := range ix.JobNums {
					j := ix.Jobs[n]
					if j.Accepted == 1 && j.Add.Ret >= 0 && j.Add.Ret < w.Call && (len(j.Exits) == 0 || j.Exits[0] > w.Call) {
						nt = true
					}
				}
			}
			return nt || len(ix.ByOp["pausewait"])+len(ix.ByOp["stop"]) > 0, cl
		}})

	// ------------------------------------------------------------------ C07
	register(&Spec{Prop: "C07",
		Gen: func(t *rapid.T, th bool) *Case {
			pf := &Profile{WQueueProb: 15, Kinds: allKinds, QKinds: allQKinds, MaxQueues: 2, Concs: []int{1, 2, 4, 8}, IDGenProb: 40, ErrsReader: 50, MinClients: 1, MaxClients: 3, MaxOps: scale(th, 8, 14),
				Ops:     map[string]int{"add": 30, "addall": 10, "result": 25, "wait": 5, "gconsume": 10, "gwait": 4, "release": 4, "yield": 3, "close": 4},
				MaxCtrl: 0, GatedProb: 25, Outs: []int{OutVal, OutVal, OutErr, OutPanicStr, OutPanicErr, OutPanicNil, OutPanicStruct}, MaxBatch: 5}
			// one case in six is a "failure storm": every job fails, several at once, nobody reads Errs()
			storm := rapid.IntRange(0, 5).Draw(t, "storm") == 0
			if storm {
				pf.Concs = []int{2, 4, 8}
				pf.Outs = []int{OutErr, OutPanicStr, OutErr, OutPanicErr, OutPanicStruct}
				pf.ErrsReader = 0
				pf.GatedProb = 60
			}
			c := genProgram(t, "C07", pf, th)
			for _, cl := range c.Clients {
				for _, op := range cl {
					if op.It != nil && rapid.IntRange(0, 2).Draw(t, "hasS") == 0 {
						op.It.S = rapid.SampledFrom([]string{"", "x", "héllo \"q\"", "\u0000\n", "日本語"}).Draw(t, "S")
					}
				}
			}
			return c
		},
		Oracles: []oracleFn{oC07, oDeadlock("C07")}, // no lifecycle or cancel calls in this profile: a deadlock means a failure disabled the pool
		Pre: func(t *rapid.T, th bool, st *Stats) bool {
			// one case in five exercises the Func / ErrFunc / ResultFunc helper workers instead
			if rapid.IntRange(0, 4).Draw(t, "helperpart") != 0 {
				return false
			}
			hc := genHelperCase(t, th)
			st.Evaluations++
			st.Classes["helper:"+hc.Worker]++
			if vs := runHelperCase(hc); len(vs) > 0 {
				st.Verdicts["violation"]++
				if st.out != "" {
					writeViolationRaw(st.out, map[string]any{"property": "C07", "part": "helpers", "helper_case": hc, "violations": vs})
				}
				t.Fatalf("VIOLATION %s", vs[0])
			}
			st.Verdicts["ok"]++
			kinds := map[int]bool{}
			for _, j := range hc.Jobs {
				kinds[j.Kind] = true
			}
			if len(kinds) >= 2 {
				st.hset[hash64("helper", hc.Worker, hc.Conc, hc.Jobs, hc.Sched)] = true
			}
			return true
		},
		Foreign: []oracleFn{oLivelock("C03")},
		NonTrivial: func(ix *Index) (bool, []string) {
			cl := classesOf(ix)
			kinds := map[int]bool{}
			for _, n := range ix.JobNums {
				if j := ix.Jobs[n]; j.It != nil && len(j.Exits) > 0 {
					kinds[j.It.Out] = true
				}
			}
			return len(kinds) >= 2, cl
		}})

	// ------------------------------------------------------------------ C08
	register(&Spec{Prop: "C08",
		Gen: func(t *rapid.T, th bool) *Case {
			pf := &Profile{Kinds: []string{"res", "err", "res", "plain"}, QKinds: memQKinds, MaxQueues: 1, Concs: []int{1, 2, 3, 4, 8}, IDGenProb: 30, MinClients: 1, MaxClients: 3, MaxOps: scale(th, 6, 10),
				Ops:     map[string]int{"addall": 30, "gconsume": 25, "gwait": 10, "gpending": 15, "purge": 4, "qclose": 3, "add": 4, "release": 4, "yield": 3},
				Ctrl:    map[string]int{"pause": 2, "resume": 3},
				MaxCtrl: 2, GatedProb: 20, Outs: []int{OutVal, OutVal, OutErr, OutPanicStr}, MaxBatch: scale(th, 5, 12)}
			if th && rapid.IntRange(0, 199).Draw(t, "bigbatch") == 0 {
				pf.MaxBatch = 300
			}
			c := genProgram(t, "C08", pf, th)
			addCloseScenario(t, c, 5)
			addBigFailingBatch(t, c, 8)
			return c
		},
		Oracles: []oracleFn{oC08, oC08StuckWait, completionBlocked("C08")},
		Foreign: []oracleFn{oDeadlock("C03"), oLivelock("C03")},
		NonTrivial: func(ix *Index) (bool, []string) {
			cl := classesOf(ix)
			nt := false
			for _, g := range ix.Groups {
				if len(g.Items) == 0 {
					cl = append(cl, "empty-batch")
					nt = true
				}
				ex := 0
				for _, n := range g.Items {
					j := ix.Jobs[n]
					if len(j.Exits) > 0 {
						ex++
					} else if j.Accepted != 1 || ix.optional(j, ix.N) {
						cl = append(cl, "rejected-or-purged-item")
						nt = true
					}
				}
				if ex >= 2 && resolveConc(ix.C.Cfg.Conc) >= 2 {
					nt = true
					cl = append(cl, "parallel-items")
				}
			}
			return nt, dedupS(cl)
		}})

	// ------------------------------------------------------------------ C09
	register(&Spec{Prop: "C09",
		Gen: func(t *rapid.T, th bool) *Case {
			pf := &Profile{Kinds: allKinds, QKinds: memQKinds, MaxQueues: 2, Concs: []int{1, 2, 3}, MinClients: 1, MaxClients: 2, MaxOps: scale(th, 8, 14),
				Ops:     map[string]int{"add": 40, "addmany": 10, "release": 5, "yield": 5, "sleep": 3},
				Ctrl:    map[string]int{"pause": 4, "pausewait": 8, "resume": 8, "stop": 4, "waitstop": 2, "restart": 4, "settle": 3, "bind": 2},
				MaxCtrl: scale(th, 6, 12), GatedProb: 25, MaxBatch: 4, Prios: []int{0, 1, 1, 2},
				SchedKinds: []string{"dev", "pct", "pct", "pctl", "pctl", "rw"}}
			return genProgram(t, "C09", pf, th)
		},
		Oracles: []oracleFn{oC09, oC04, oC09Resumed},
		Foreign: []oracleFn{oCrash("*"), oDeadlock("C03"), oLivelock("C03")},
		NonTrivial: func(ix *Index) (bool, []string) {
			cl := classesOf(ix)
			nt := false
			for _, op := range []string{"pausewait", "stop", "waitstop", "pause"} {
				for _, b := range ix.ByOp[op] {
					if !b.Returned() {
						continue
					}
					for _, n := range ix.JobNums {
						j := ix.Jobs[n]
						if j.Accepted == 1 && j.Add.Call < b.Ret && j.firstEnter(ix.N) > b.Ret {
							nt = true
						}
					}
				}
			}
			if nt {
				cl = append(cl, "barrier-with-pending")
			}
			return nt, cl
		}})

	// ------------------------------------------------------------------ C10
	register(&Spec{Prop: "C10",
		Gen: func(t *rapid.T, th bool) *Case {
			pf := &Profile{WQueueProb: 15, Kinds: allKinds, QKinds: memQKinds, MaxQueues: 2, Concs: []int{1, 2, 3}, MinClients: 1, MaxClients: 4, MaxOps: scale(th, 7, 12),
				Ops:     map[string]int{"add": 30, "addall": 6, "close": 25, "purge": 6, "qclose": 3, "wait": 8, "status": 3, "release": 4, "yield": 3, "gwait": 2},
				Ctrl:    map[string]int{"pause": 3, "resume": 4, "pausewait": 1},
				MaxCtrl: 3, GatedProb: 30, Outs: []int{OutVal, OutVal, OutErr}, MaxBatch: 4}
			c := genProgram(t, "C10", pf, th)
			addCloseScenario(t, c, 4)
			return c
		},
		Oracles: []oracleFn{oC10},
		Foreign: []oracleFn{oDeadlock("C03"), oLivelock("C03")},
		NonTrivial: func(ix *Index) (bool, []string) {
			cl := classesOf(ix)
			nt := false
			for _, n := range ix.JobNums {
				j := ix.Jobs[n]
				for _, c := range j.Closes {
					// Close overlapping dispatch or completion of the same job
					if len(j.Enters) > 0 && c.Call < j.Enters[0] && c.end(ix.N) > j.Add.Call {
						nt = true
					}
					if len(j.Exits) > 0 && c.Call > j.Exits[0] {
						cl = append(cl, "close-after-finish")
					}
					if c.Returned() && c.RetEv.OK {
						cl = append(cl, "cancelled")
						nt = true
					}
				}
			}
			if len(ix.ByOp["purge"]) > 0 && len(ix.JobNums) > 1 {
				nt = true
			}
			return nt, dedupS(cl)
		}})

	// ------------------------------------------------------------------ C16
	register(&Spec{Prop: "C16",
		Gen: func(t *rapid.T, th bool) *Case {
			pf := &Profile{WQueueProb: 15, Kinds: allKinds, QKinds: memQKinds, MaxQueues: 1, Concs: []int{1, 2, 3}, MinClients: 2, MaxClients: 4, MaxOps: scale(th, 8, 14),
				Ops:     map[string]int{"add": 30, "addall": 4, "status": 30, "wait": 12, "close": 4, "release": 3, "yield": 4, "snap": 4},
				MaxCtrl: 0, GatedProb: 20, Outs: []int{OutVal, OutErr, OutPanicStr}, MaxBatch: 3}
			c := genProgram(t, "C16", pf, th)
			// one program in five has a configured context that is cancelled while jobs are queued or running
			if rapid.IntRange(0, 4).Draw(t, "withctx") == 0 {
				c.Cfg.Ctx = true
				var ctrl []Op
				for i := 0; i < rapid.IntRange(0, 3).Draw(t, "ctxyields"); i++ {
					ctrl = append(ctrl, Op{Op: pick(t, "ctxpre", []string{"yield", "settle"})})
				}
				c.Clients[0] = append(ctrl, Op{Op: "cancelctx"})
			}
			return c
		},
		Oracles: []oracleFn{oC16},
		Foreign: []oracleFn{oCrash("*"), oDeadlock("C03"), oLivelock("C03")},
		NonTrivial: func(ix *Index) (bool, []string) {
			cl := classesOf(ix)
			nt := false
			for _, c := range cl {
				if c == "enter-before-add-ret" {
					nt = true
				}
			}
			return nt || len(ix.ByOp["status"]) >= 2, cl
		}})
}

func dedupS(xs []string) []string {
	seen := map[string]bool{}
	var out []string
	for _, x := range xs {
		if !seen[x] {
			seen[x] = true
			out = append(out, x)
		}
	}
	return out
}

// addBigFailingBatch appends (with probability 1/oneIn, error and result workers) a batch of 18-40 items
// that all fail, waited for before anybody reads its stream: every item must still finish.
func addBigFailingBatch(t *rapid.T, c *Case, oneIn int) {
	if c.Cfg.Kind == "plain" || len(c.Clients) < 2 || rapid.IntRange(0, oneIn-1).Draw(t, "bigfailbatch") != 0 {
		return
	}
	q := 0
	for i, k := range c.Cfg.Queues {
		if isMemKind(k) {
			q = i
		}
	}
	if !isMemKind(c.Cfg.Queues[q]) {
		return
	}
	n := rapid.IntRange(18, 40).Draw(t, "bigfailn")
	var items []Item
	for i := 0; i < n; i++ {
		items = append(items, Item{N: 7000 + i, ID: "f" + itoa(7000+i), Out: pick(t, "failkind", []int{OutErr, OutErr, OutPanicStr})})
	}
	ci := rapid.IntRange(1, len(c.Clients)-1).Draw(t, "bigfailclient")
	c.Clients[ci] = append(c.Clients[ci], Op{Op: "addall", Q: q, G: 950, Items: items}, Op{Op: "gwait", G: 950}, Op{Op: "gpending", G: 950}, Op{Op: "gconsume", G: 950})
}

// addCloseScenario inserts (with probability 1/oneIn) a queue-close scenario into one client:
// Close, then any mix of Purge / NumPending / Close again, then single and batch submissions.
func addCloseScenario(t *rapid.T, c *Case, oneIn int) {
	if len(c.Clients) < 2 || rapid.IntRange(0, oneIn-1).Draw(t, "closescenario") != 0 {
		return
	}
	ci := rapid.IntRange(1, len(c.Clients)-1).Draw(t, "closeclient")
	q := rapid.IntRange(0, len(c.Cfg.Queues)-1).Draw(t, "closeq")
	seq := []Op{{Op: "qclose", Q: q}}
	for i := 0; i < rapid.IntRange(0, 2).Draw(t, "nbetween"); i++ {
		seq = append(seq, Op{Op: pick(t, "between", []string{"purge", "qpending", "qclose", "yield"}), Q: q})
	}
	n := 5000
	for i := 0; i < rapid.IntRange(1, 3).Draw(t, "nafter"); i++ {
		n++
		if rapid.Bool().Draw(t, "afterbatch") {
			g := 900 + i
			seq = append(seq, Op{Op: "addall", Q: q, G: g, Items: []Item{{N: n, ID: "c" + itoa(n)}, {N: n + 100, ID: "c" + itoa(n+100)}, {N: n + 200, ID: "c" + itoa(n+200)}}})
			for _, w := range []string{"gwait", "gconsume", "gpending"} {
				if rapid.Bool().Draw(t, "after-"+w) {
					seq = append(seq, Op{Op: w, G: g})
				}
			}
		} else {
			seq = append(seq, Op{Op: "add", Q: q, It: &Item{N: n}})
		}
	}
	pos := rapid.IntRange(0, len(c.Clients[ci])).Draw(t, "closepos")
	ops := append([]Op{}, c.Clients[ci][:pos]...)
	ops = append(ops, seq...)
	ops = append(ops, c.Clients[ci][pos:]...)
	c.Clients[ci] = ops
}
