package vharness

import (
	"fmt"
	"sort"

	"github.com/goptics/varmq/vrt"
)

// CallRec is one client operation: positions of its call and ret events (Ret = -1 if it never returned).
type CallRec struct {
	Call, Ret int
	Op        string
	C         int
	J, Q, G   int
	CallEv    Ev
	RetEv     Ev
}

func (c CallRec) Returned() bool { return c.Ret >= 0 }

// end is the position where the call's effects are certainly over (len(hist) if it never returned).
func (c CallRec) end(n int) int {
	if c.Ret >= 0 {
		return c.Ret
	}
	return n
}

// JobRec is everything the history says about one job.
type JobRec struct {
	N        int
	Q        int
	It       *Item
	Group    int // -1 for single jobs
	BatchIdx int // position inside its batch / among the pre-loaded items
	Pre      bool
	Add      CallRec // the add / addall call
	Accepted int     // 1 accepted, 0 rejected, -1 unknown
	Enters   []int
	Exits    []int
	EnterEvs []Ev
	ExitEvs  []Ev
	Closes   []CallRec
	Waits    []CallRec // wait / result / err
	Status   []CallRec
}

func (j *JobRec) firstEnter(n int) int {
	if len(j.Enters) > 0 {
		return j.Enters[0]
	}
	return n
}

// cancelledBy returns the first Close call on the job that returned nil (or nil).
func (j *JobRec) cancelledBy() *CallRec {
	for i := range j.Closes {
		if j.Closes[i].Returned() && j.Closes[i].RetEv.OK {
			return &j.Closes[i]
		}
	}
	return nil
}

type GroupRec struct {
	G       int
	Q       int
	Add     CallRec
	Items   []int
	Consume []CallRec
	ItemEvs []Ev
	ItemPos []int
	Waits   []CallRec
	Pending []CallRec
}

// Index is the reference view of an episode.
type Index struct {
	R       *Result
	C       *Case
	H       []Ev
	N       int
	Calls   []CallRec
	ByOp    map[string][]CallRec
	Jobs    map[int]*JobRec
	JobNums []int
	Groups  map[int]*GroupRec
	Purges  map[int][]CallRec
	QCloses map[int][]CallRec
	Quiesc  []int // positions of q events
	Final   *Snap
	FinalPos int
	Stopped *Snap
	StoppedEv *Ev
	Life    []CallRec // lifecycle calls in call order (controller + epilogue)
	Completed bool    // the episode reached its final snapshot
	WErrs   []Ev
	Ad      []Ev
	QKinds  []string // queue kinds incl. later binds
}

var lifecycleOps = map[string]bool{"pause": true, "pausewait": true, "resume": true, "stop": true, "waitstop": true, "restart": true, "tune": true, "bind": true, "cancelctx": true}

func BuildIndex(r *Result) *Index {
	ix := &Index{R: r, C: r.Case, H: r.Hist, N: len(r.Hist), ByOp: map[string][]CallRec{}, Jobs: map[int]*JobRec{}, Groups: map[int]*GroupRec{},
		Purges: map[int][]CallRec{}, QCloses: map[int][]CallRec{}, FinalPos: -1}
	ix.QKinds = append(ix.QKinds, r.Case.Cfg.Queues...)
	open := map[[2]interface{}]int{} // (client, op) -> index in Calls of the open call; clients are sequential
	lastOpen := map[int]int{}
	_ = open
	job := func(n int) *JobRec {
		j := ix.Jobs[n]
		if j == nil {
			j = &JobRec{N: n, Q: -1, Group: -1, Accepted: -1, Add: CallRec{Call: -1, Ret: -1}}
			ix.Jobs[n] = j
			ix.JobNums = append(ix.JobNums, n)
		}
		return j
	}
	for i, it := range r.Case.Cfg.PreItems {
		it := it
		j := job(it.N)
		j.It, j.Q, j.Pre, j.Accepted, j.BatchIdx = &it, 0, true, 1, i
	}
	for pos, ev := range r.Hist {
		switch ev.K {
		case "call":
			ix.Calls = append(ix.Calls, CallRec{Call: pos, Ret: -1, Op: ev.Op, C: ev.C, J: ev.J, Q: ev.Q, G: ev.G, CallEv: ev})
			lastOpen[ev.C] = len(ix.Calls) - 1
		case "ret":
			if i, ok := lastOpen[ev.C]; ok && ix.Calls[i].Ret < 0 && ix.Calls[i].Op == ev.Op {
				ix.Calls[i].Ret = pos
				ix.Calls[i].RetEv = ev
			}
		case "enter":
			j := job(ev.J)
			j.Enters = append(j.Enters, pos)
			j.EnterEvs = append(j.EnterEvs, ev)
		case "exit":
			j := job(ev.J)
			j.Exits = append(j.Exits, pos)
			j.ExitEvs = append(j.ExitEvs, ev)
		case "q":
			ix.Quiesc = append(ix.Quiesc, pos)
		case "final":
			ix.Final = ev.Sn
			ix.FinalPos = pos
			ix.Completed = true
		case "stopped":
			ix.Stopped = ev.Sn
			e2 := ev
			ix.StoppedEv = &e2
		case "werr":
			ix.WErrs = append(ix.WErrs, ev)
		case "ad":
			ix.Ad = append(ix.Ad, ev)
		}
	}
	// second pass over calls (now with ret information)
	items := map[int]*Item{}
	for ci := range r.Case.Clients {
		for oi := range r.Case.Clients[ci] {
			op := &r.Case.Clients[ci][oi]
			if op.It != nil {
				items[op.It.N] = op.It
			}
			for k := range op.Items {
				items[op.Items[k].N] = &op.Items[k]
			}
		}
	}
	opItems := map[int][]Item{} // group -> items
	for ci := range r.Case.Clients {
		for _, op := range r.Case.Clients[ci] {
			if op.Op == "addall" {
				opItems[op.G] = op.Items
			}
		}
	}
	for _, c := range ix.Calls {
		ix.ByOp[c.Op] = append(ix.ByOp[c.Op], c)
		if lifecycleOps[c.Op] {
			ix.Life = append(ix.Life, c)
		}
		switch c.Op {
		case "add":
			j := job(c.J)
			j.It, j.Q, j.Add = items[c.J], c.Q, c
			if c.Returned() {
				if c.RetEv.OK {
					j.Accepted = 1
				} else {
					j.Accepted = 0
				}
			}
		case "addall":
			g := &GroupRec{G: c.G, Q: c.Q, Add: c}
			ix.Groups[c.G] = g
			for bi, it := range opItems[c.G] {
				it := it
				j := job(it.N)
				j.It, j.Q, j.Add, j.Group, j.BatchIdx = &it, c.Q, c, c.G, bi
				g.Items = append(g.Items, it.N)
			}
		case "close":
			job(c.J).Closes = append(job(c.J).Closes, c)
		case "wait", "result", "err":
			job(c.J).Waits = append(job(c.J).Waits, c)
		case "status":
			job(c.J).Status = append(job(c.J).Status, c)
		case "purge":
			ix.Purges[c.Q] = append(ix.Purges[c.Q], c)
		case "qclose":
			ix.QCloses[c.Q] = append(ix.QCloses[c.Q], c)
		case "bind":
			ix.QKinds = append(ix.QKinds, c.CallEv.S)
		case "gconsume":
			if g := ix.Groups[c.G]; g != nil {
				g.Consume = append(g.Consume, c)
			}
		case "gwait":
			if g := ix.Groups[c.G]; g != nil {
				g.Waits = append(g.Waits, c)
			}
		case "gpending":
			if g := ix.Groups[c.G]; g != nil {
				g.Pending = append(g.Pending, c)
			}
		}
	}
	for pos, ev := range r.Hist {
		if ev.K == "item" {
			if g := ix.Groups[ev.G]; g != nil {
				g.ItemEvs = append(g.ItemEvs, ev)
				g.ItemPos = append(g.ItemPos, pos)
			}
		}
	}
	// batch item acceptance: in-memory queues reject only when closed
	for _, g := range ix.Groups {
		for _, n := range g.Items {
			j := ix.Jobs[n]
			acc := 1
			for _, qc := range ix.QCloses[g.Q] {
				if qc.Returned() && qc.Ret < g.Add.Call {
					acc = 0
					break
				}
				if qc.Call < g.Add.end(ix.N) {
					acc = -1
				}
			}
			if !g.Add.Returned() && acc == 1 {
				acc = -1
			}
			j.Accepted = acc
		}
	}
	sort.Ints(ix.JobNums)
	return ix
}

// possiblyPurged: some Purge of the job's queue could have removed it
// (it did not finish before the job's submission started).
func (ix *Index) possiblyPurged(j *JobRec) bool {
	for _, p := range ix.Purges[j.Q] {
		if p.end(ix.N) > j.Add.Call && p.Call < j.firstEnter(ix.N) {
			return true
		}
	}
	return false
}

// limitAt returns the largest concurrency limit that may be in force anywhere in [from, to].
func (ix *Index) maxLimit(from, to int) int {
	cur := resolveConc(ix.C.Cfg.Conc)
	max := 0
	consider := func(v int) {
		if v > max {
			max = v
		}
	}
	// walk tune calls in order; a tune in progress counts with both values
	for _, c := range ix.ByOp["tune"] {
		nv := resolveConc(int(c.CallEv.I))
		okTune := !c.Returned() || c.RetEv.E == ""
		if c.end(ix.N) < from {
			if c.Returned() && c.RetEv.E == "" {
				cur = nv
			}
			continue
		}
		if c.Call > to {
			break
		}
		// overlaps the window
		consider(cur)
		if okTune {
			consider(nv)
			if c.Returned() {
				cur = nv
			}
		}
	}
	consider(cur)
	return max
}

func resolveConc(c int) int {
	if c < 1 {
		return NumCPU
	}
	return c
}

// tuneInProgress / lifecycle call in progress at position pos
func (ix *Index) lifeInProgress(pos int) bool {
	for _, c := range ix.Life {
		if c.Call < pos && c.end(ix.N) > pos {
			return true
		}
	}
	return false
}

// stateAt returns the reference lifecycle state right before position pos, computed from the
// returned lifecycle calls (the reference machine of C14), and whether it is certain.
func (ix *Index) modelState(pos int) string {
	st := "Running" // setup binds at least one queue
	if ix.C.Cfg.StartPaused {
		st = "Paused"
	}
	for _, c := range ix.Life {
		if c.Call >= pos {
			break
		}
		st = nextState(st, c.Op)
	}
	return st
}

func nextState(st, op string) string {
	switch op {
	case "pause", "pausewait":
		if st == "Running" {
			return "Paused"
		}
	case "resume":
		if st == "Paused" || st == "Initiated" {
			return "Running"
		}
	case "stop", "waitstop":
		if st == "Running" || st == "Paused" {
			return "Stopped"
		}
	case "restart":
		return "Running"
	case "bind":
		if st == "Initiated" {
			return "Running"
		}
	case "cancelctx":
		return "Stopped" // eventually
	}
	return st
}

func (ix *Index) describe(positions ...int) string {
	s := ""
	for _, p := range positions {
		if p >= 0 && p < ix.N {
			s += fmt.Sprintf("[%d]%s ", p, ix.H[p])
		}
	}
	return s
}

// crashText returns the first crash message, or "".
func (ix *Index) crashText() string {
	if len(ix.R.Rep.Crashes) == 0 {
		return ""
	}
	return ix.R.Rep.Crashes[0].Value
}

func has(c *Case, ops ...string) bool {
	for _, cl := range c.Clients {
		for _, op := range cl {
			for _, o := range ops {
				if op.Op == o {
					return true
				}
			}
		}
	}
	return false
}

var _ = vrt.Now
