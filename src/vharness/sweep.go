package vharness

import (
	"fmt"
	"os"
	"strings"
)

// Bounded-exhaustive schedule sweeps.
//
// For a fixed small scenario (configuration + client program) EVERY schedule that deviates from
// the base schedule ("run until you block, then the next enabled goroutine") at most `depth` times is
// executed: a deviation is (position, alternative): at the position-th scheduling point since the
// previous deviation, run the alternative-th other enabled goroutine (or fire the virtual clock).
// Depth 1 is part of the quick tier, depth 2 of the thorough tier. The scenarios are the minimal
// failing programs of the defects found on the pinned tree (replays/<id>/*.json, their recorded
// schedule dropped) plus a few hand-written ones, so every repaired interleaving defect is
// re-examined under all nearby schedules, not only under the one that exposed it.

const sweepAlternatives = 4 // alternatives tried at each position (enabled goroutines beyond that wrap around)

type sweepStat struct {
	Depth      int  `json:"depth"`
	Episodes   int  `json:"episodes"`
	Distinct   int  `json:"distinct_histories"`
	Exhaustive bool `json:"exhaustive_for_depth"`
	BasePoints int  `json:"choice_points_of_base_schedule"`
}

func builtinScenarios(prop string) map[string]*Case {
	g := func(n int) *Item { return &Item{N: n, Gated: true} }
	p := func(n int) *Item { return &Item{N: n} }
	all := map[string]*Case{
		"two-adds-then-wuf": {Cfg: Config{Kind: "plain", Queues: []string{"std"}, Conc: 2},
			Clients: [][]Op{nil, {{Op: "add", It: p(1)}, {Op: "add", It: p(2)}, {Op: "wuf"}}}},
		"pausewait-vs-adds": {Cfg: Config{Kind: "plain", Queues: []string{"std"}, Conc: 1},
			Clients: [][]Op{{{Op: "pausewait"}, {Op: "settle"}, {Op: "resume"}}, {{Op: "add", It: p(1)}, {Op: "add", It: p(2)}}}},
		"stop-restart-vs-adds": {Cfg: Config{Kind: "plain", Queues: []string{"std"}, Conc: 1, FinalStop: true},
			Clients: [][]Op{{{Op: "stop"}, {Op: "restart"}}, {{Op: "add", It: p(1)}, {Op: "add", It: p(2)}, {Op: "wait", N: 1}}}},
		"result-batch-of-3": {Cfg: Config{Kind: "res", Queues: []string{"std"}, Conc: 2},
			Clients: [][]Op{nil, {{Op: "addall", G: 0, Items: []Item{{N: 1, ID: "a"}, {N: 2, ID: "b", Out: OutErr}, {N: 3}}}, {Op: "gconsume", G: 0}, {Op: "gwait", G: 0}, {Op: "gpending", G: 0}}}},
		"batch-wait": {Cfg: Config{Kind: "err", Queues: []string{"std"}, Conc: 1},
			Clients: [][]Op{nil, {{Op: "addall", G: 0, Items: []Item{{N: 1}, {N: 2, Out: OutErr}}}, {Op: "gwait", G: 0}, {Op: "gpending", G: 0}}, {{Op: "yield"}, {Op: "gwait", G: 0}, {Op: "close", N: 2}}}},
		"qclose-vs-add": {Cfg: Config{Kind: "plain", Queues: []string{"std"}, Conc: 1},
			Clients: [][]Op{nil, {{Op: "barrier"}, {Op: "add", It: p(2)}, {Op: "qpending"}}, {{Op: "add", It: g(1)}, {Op: "settle"}, {Op: "barrier"}, {Op: "qclose"}, {Op: "add", It: p(3)}, {Op: "release", N: 1}}}},
		"cancel-vs-dispatch": {Cfg: Config{Kind: "err", Queues: []string{"std"}, Conc: 1},
			Clients: [][]Op{nil, {{Op: "add", It: p(1)}, {Op: "add", It: p(2)}, {Op: "close", N: 2}, {Op: "wait", N: 1}, {Op: "wait", N: 2}, {Op: "status", N: 2}}, {{Op: "close", N: 2}, {Op: "status", N: 1}}}},
		"close-running-after-racing-add": {Cfg: Config{Kind: "plain", Queues: []string{"std"}, Conc: 2},
			Clients: [][]Op{nil, {{Op: "add", It: g(1)}, {Op: "close", N: 1}, {Op: "wait", N: 1}, {Op: "status", N: 1}}, {{Op: "add", It: p(2)}, {Op: "settle"}, {Op: "release", N: 1}}}},
		"close-running-after-racing-add-res-prio": {Cfg: Config{Kind: "res", Queues: []string{"prio"}, Conc: 2},
			Clients: [][]Op{nil, {{Op: "add", It: g(1)}, {Op: "close", N: 1}, {Op: "result", N: 1}, {Op: "status", N: 1}}, {{Op: "add", It: p(2)}, {Op: "settle"}, {Op: "release", N: 1}}}},
		"purge-vs-add": {Cfg: Config{Kind: "plain", Queues: []string{"prio"}, Conc: 1},
			Clients: [][]Op{{{Op: "pause"}, {Op: "settle"}, {Op: "resume"}}, {{Op: "add", It: p(1)}, {Op: "add", It: p(2)}, {Op: "wait", N: 2}}, {{Op: "purge"}, {Op: "qpending"}, {Op: "npend"}}}},
		"tune-down-under-load": {Cfg: Config{Kind: "plain", Queues: []string{"std"}, Conc: 3},
			Clients: [][]Op{{{Op: "tune", V: 1}, {Op: "settle"}}, {{Op: "add", It: g(1)}, {Op: "add", It: g(2)}, {Op: "add", It: g(3)}, {Op: "add", It: g(4)}, {Op: "release", N: 1}, {Op: "release", N: 2}, {Op: "release", N: 3}}}},
		"tune-down-with-idle-workers": {Cfg: Config{Kind: "plain", Queues: []string{"std"}, Conc: 3, Ratio: 100, FinalStop: true},
			Clients: [][]Op{nil, {{Op: "barrier"}, {Op: "add", It: p(4)}, {Op: "add", It: p(5)}, {Op: "add", It: p(6)}},
				{{Op: "add", It: g(1)}, {Op: "add", It: g(2)}, {Op: "add", It: g(3)}, {Op: "settle"}, {Op: "release", N: 1}, {Op: "release", N: 2}, {Op: "release", N: 3}, {Op: "settle"}, {Op: "barrier"}, {Op: "add", It: g(7)}, {Op: "tune", V: 1}}}},
		"restart-vs-resume": {Cfg: Config{Kind: "plain", Queues: []string{"std"}, Conc: 1},
			Clients: [][]Op{{{Op: "barrier"}, {Op: "restart"}}, {{Op: "barrier"}, {Op: "resume"}}, {{Op: "pause"}, {Op: "add", It: g(1)}, {Op: "add", It: p(2)}, {Op: "settle"}, {Op: "barrier"}}}},
		"wuf-vs-purge-at-last-completion": {Cfg: Config{Kind: "plain", Queues: []string{"std"}, Conc: 1},
			Clients: [][]Op{nil, {{Op: "barrier"}, {Op: "wuf"}}, {{Op: "barrier", V: 1}, {Op: "purge"}},
				{{Op: "add", It: g(1)}, {Op: "add", It: p(2)}, {Op: "settle"}, {Op: "barrier"}, {Op: "settle"}, {Op: "barrier", V: 1}, {Op: "release", N: 1}}}},
		"slow-ack-then-two-adds": {Cfg: Config{Kind: "plain", Queues: []string{"pers"}, Conc: 3}, Faults: []Fault{{Method: "AckGate", K: 1}},
			Clients: [][]Op{nil, {{Op: "add", It: p(1)}, {Op: "settle"}, {Op: "add", It: p(2)}, {Op: "add", It: g(3)}, {Op: "settle"}}}},
		"idle-expiry": {Cfg: Config{Kind: "plain", Queues: []string{"std"}, Conc: 2, ExpiryUs: 60, FinalStop: true},
			Clients: [][]Op{nil, {{Op: "add", It: p(1)}, {Op: "add", It: p(2)}, {Op: "sleep", V: 200}, {Op: "add", It: p(3)}, {Op: "wait", N: 3}}}},
		"samplers": {Cfg: Config{Kind: "plain", Queues: []string{"std"}, Conc: 1},
			Clients: [][]Op{nil, {{Op: "add", It: p(1)}, {Op: "add", It: p(2)}, {Op: "wait", N: 2}}, {{Op: "qpending"}, {Op: "npend"}, {Op: "nproc"}, {Op: "metrics"}, {Op: "status", N: 1}, {Op: "qpending"}}}},
	}
	use := map[string][]string{
		"C01": {"qclose-vs-add", "tune-down-with-idle-workers", "two-adds-then-wuf", "pausewait-vs-adds", "stop-restart-vs-adds", "cancel-vs-dispatch", "idle-expiry"},
		"C02": {"tune-down-under-load", "stop-restart-vs-adds", "tune-down-with-idle-workers", "restart-vs-resume"},
		"C03": {"two-adds-then-wuf", "pausewait-vs-adds", "idle-expiry", "tune-down-under-load", "wuf-vs-purge-at-last-completion"},
		"C04": {"slow-ack-then-two-adds"},
		"C05": {"cancel-vs-dispatch", "result-batch-of-3", "purge-vs-add", "batch-wait", "close-running-after-racing-add", "close-running-after-racing-add-res-prio"},
		"C06": {"two-adds-then-wuf", "pausewait-vs-adds", "stop-restart-vs-adds", "purge-vs-add", "wuf-vs-purge-at-last-completion"},
		"C07": {"result-batch-of-3"},
		"C08": {"result-batch-of-3", "batch-wait"},
		"C09": {"pausewait-vs-adds", "stop-restart-vs-adds"},
		"C10": {"cancel-vs-dispatch", "purge-vs-add", "qclose-vs-add", "close-running-after-racing-add"},
		"C16": {"cancel-vs-dispatch", "samplers", "close-running-after-racing-add"},
		"C17": {"samplers", "purge-vs-add"},
		"C18": {"idle-expiry", "stop-restart-vs-adds", "tune-down-under-load", "tune-down-with-idle-workers"},
	}
	out := map[string]*Case{}
	for _, n := range use[prop] {
		c := *all[n]
		c.Prop = prop
		out[n] = &c
	}
	return out
}

// sweepScenarios runs the sweeps of one shard. Returns true if a violation was reported through fail.
func sweepScenarios(spec *Spec, st *Stats, shard, nshards int, thorough bool, fail func(c *Case, vs []Violation, r *Result)) {
	scen := builtinScenarios(spec.Prop)
	for _, f := range strings.Split(os.Getenv("VERIF_SCENARIOS"), ":") {
		if f == "" {
			continue
		}
		b, err := os.ReadFile(f)
		if err != nil {
			continue
		}
		c, err := ParseCase(b)
		if err != nil || c.Cfg.Kind == "" || len(c.Clients) == 0 {
			continue
		}
		jobs := 0
		for _, cl := range c.Clients {
			for _, op := range cl {
				if op.It != nil {
					jobs++
				}
				jobs += len(op.Items)
			}
		}
		if jobs > 12 {
			continue // sweeps are for small programs
		}
		name := f[strings.LastIndex(f, "/")+1:]
		c.Prop = spec.Prop
		scen["replay:"+name] = c
	}
	names := make([]string, 0, len(scen))
	for n := range scen {
		names = append(names, n)
	}
	sortStrings(names)
	depth := 1
	budget := 4000 // episodes per scenario and shard
	if thorough {
		depth = 2
		budget = 25000
	}
	if st.Extra == nil {
		st.Extra = map[string]any{}
	}
	stats := map[string]*sweepStat{}
	for _, name := range names {
		base := scen[name]
		ss := &sweepStat{Depth: depth, Exhaustive: true}
		stats[name] = ss
		seen := map[uint64]bool{}
		run := func(devs [][2]int) *Result {
			c := *base
			c.Sched = Sched{Strategy: "dev", Devs: devs}
			c.Note = "sweep of scenario " + name
			st.cur(&c)
			r := RunCase(&c)
			ss.Episodes++
			if vs := evaluate(spec, &c, r, st); len(vs) > 0 {
				fail(&c, vs, r)
			}
			seen[histHash(r.Hist)] = true
			return r
		}
		r0 := run(nil)
		ss.BasePoints = r0.Dev.Multi
		// this shard's share of the first deviations; when the budget does not cover every second
		// deviation, each first deviation gets an equal share of them, taken at a regular stride
		mine := (r0.Dev.Multi*sweepAlternatives + nshards - 1) / nshards
		per := budget
		if mine > 0 {
			per = budget / mine
		}
		if per < 8 {
			per = 8
		}
		idx := 0
		for s1 := 0; s1 < r0.Dev.Multi; s1++ {
			for p1 := 0; p1 < sweepAlternatives; p1++ {
				idx++
				if idx%nshards != shard {
					continue
				}
				if ss.Episodes >= 2*budget {
					ss.Exhaustive = false
					break
				}
				r1 := run([][2]int{{s1, p1}})
				if depth < 2 || len(r1.Dev.FiredAt) == 0 {
					continue
				}
				inner := (r1.Dev.Multi - r1.Dev.FiredAt[0] - 1) * sweepAlternatives
				stride := 1
				if inner > per {
					stride = (inner + per - 1) / per
					ss.Exhaustive = false
				}
				for k := (s1 + p1) % stride; k < inner; k += stride {
					run([][2]int{{s1, p1}, {k / sweepAlternatives, k % sweepAlternatives}})
				}
			}
		}
		ss.Distinct = len(seen)
		st.Classes["sweep:"+name] += ss.Episodes
	}
	st.Extra["schedule_sweeps"] = stats
	st.Extra["schedule_sweeps_note"] = fmt.Sprintf("this shard's share (1/%d of the first-deviation positions) of all schedules with <= %d deviations from the base schedule, %d alternatives per position", nshards, depth, sweepAlternatives)
}

func sortStrings(xs []string) {
	for i := 1; i < len(xs); i++ {
		for j := i; j > 0 && xs[j] < xs[j-1]; j-- {
			xs[j], xs[j-1] = xs[j-1], xs[j]
		}
	}
}
