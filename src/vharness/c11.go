package vharness

import (
	"fmt"

	"pgregory.net/rapid"
)

// C11: acknowledge only after processing, at most once; no accepted job lost in a crash.
// The episode is first run to completion, then re-run (deterministically, same
// schedule) and cut at every adapter-call boundary; each cut is followed by a
// recovery episode on the recovered adapter contents.

func oC11Ack(ix *Index) []Violation {
	var out []Violation
	for pos, ev := range ix.H {
		if ev.K != "ad" || ev.Op != "Acknowledge" {
			continue
		}
		switch ev.E {
		case "fault":
			continue
		case "unknown-id":
			out = append(out, v("C11", "ack-unknown-id", "Acknowledge(%q) at %d: the adapter never issued this id", ev.S, pos))
			continue
		case "double-ack":
			out = append(out, v("C11", "ack-twice", "Acknowledge(%q) at %d: this delivery was already acknowledged", ev.S, pos))
			continue
		}
		j := ix.Jobs[ev.J]
		done := false
		if j != nil {
			for _, x := range j.Exits {
				if x < pos {
					done = true
				}
			}
		}
		if !done {
			out = append(out, v("C11", "ack-before-done", "Acknowledge(%q) at %d for job %d whose worker function has not returned (enters %v exits %v)", ev.S, pos, ev.J, jobEnters(j), jobExits(j)))
		}
	}
	// plain Dequeue on an acknowledging adapter removes the item for good: nothing protects it
	for pos, ev := range ix.H {
		if ev.K == "ad" && ev.Op == "Dequeue" && ev.OK {
			out = append(out, v("C11", "dequeue-without-ack", "item of job %d was taken with Dequeue() at %d instead of DequeueWithAckId(): a crash before completion loses it", ev.J, pos))
		}
	}
	return out
}

func jobEnters(j *JobRec) []int {
	if j == nil {
		return nil
	}
	return j.Enters
}
func jobExits(j *JobRec) []int {
	if j == nil {
		return nil
	}
	return j.Exits
}

// oC11Final: a fault-tolerant drain — at rest every accepted job is processed and acknowledged.
func oC11Final(ix *Index) []Violation {
	var out []Violation
	for _, ev := range ix.H {
		if ev.K == "goexit" {
			// a worker function that never returns takes its pool goroutine and slot with it: the drain
			// clauses do not apply (its delivery must stay unacknowledged - oC11Ack and the crash law)
			return nil
		}
	}
	out = append(out, oDeadlock("C11")(ix)...)
	if !ix.finalRunning() || ix.R.Rep.Deadlock {
		return out
	}
	ackFault := false
	for _, f := range ix.C.Faults {
		if f.Method == "Acknowledge" {
			ackFault = true
		}
	}
	for _, n := range ix.JobNums {
		j := ix.Jobs[n]
		if j.Accepted == 1 && len(j.Exits) == 0 {
			out = append(out, v("C11", "not-drained", "job %d is held by the adapter (pending %v, unacked %v) but was never processed although the worker is Running and idle", n, ix.Final.AdPending, ix.Final.AdUnacked))
		}
	}
	if !ackFault {
		for q, u := range ix.Final.AdUnacked {
			if q == 0 {
				u -= len(ix.C.Cfg.PreBad) // undecodable entries stay delivered and unacknowledged
			}
			if u > 0 {
				out = append(out, v("C11", "not-acked", "at rest queue %d still has %d delivered but unacknowledged items although no acknowledgement was refused", q, u))
			}
		}
	}
	return out
}

// crash law at a cut: nothing accepted is lost
func c11CrashLaw(ix *Index) []Violation {
	var out []Violation
	env := ix.R.Env
	if len(env.qs) == 0 || env.qs[0].ad == nil {
		return nil
	}
	ad := env.qs[0].ad
	held := map[int]bool{}
	for _, it := range ad.pending {
		held[jobOfItem(it.val)] = true
	}
	for _, it := range ad.unacked {
		held[jobOfItem(it.val)] = true
	}
	for _, ev := range ix.Ad {
		if ev.Op != "Enqueue" || !ev.OK {
			continue
		}
		j := ix.Jobs[ev.J]
		exited := j != nil && len(j.Exits) > 0
		if !exited && !held[ev.J] {
			out = append(out, v("C11", "lost-in-crash", "crash after %d adapter calls: job %d was accepted by the adapter, its worker function never returned, and the adapter no longer holds it (neither pending nor unacknowledged)", env.adCalls, ev.J))
		}
	}
	return out
}

type c11Plan struct {
	Base     *Case
	RecSched Sched
	RecFault []Fault
}

func planOf(c *Case) *c11Plan {
	p := &c11Plan{Base: c, RecSched: Sched{Strategy: "base"}, RecFault: c.RecFaults}
	if c.RecSched != nil {
		p.RecSched = *c.RecSched
	}
	return p
}

func genC11(t *rapid.T, th bool) *c11Plan {
	pf := &Profile{Kinds: []string{"plain"}, QKinds: []string{"pers", "persprio", "dist", "distprio"}, MaxQueues: 1, Concs: []int{1, 2, 3, 4}, MinClients: 1, MaxClients: 2, MaxOps: scale(th, 4, 7),
		Ops:     map[string]int{"add": 40, "addmany": 6, "yield": 4, "settle": 2},
		MaxCtrl: 0, GatedProb: 15, Outs: []int{OutVal, OutVal, OutPanicStr}, MaxBatch: 3, RaceProb: -1}
	c := genProgram(t, "C11", pf, th)
	gf := func(label string) []Fault {
		var fs []Fault
		n := rapid.IntRange(0, 2).Draw(t, label+"-nfaults")
		for i := 0; i < n; i++ {
			fs = append(fs, Fault{Method: pick(t, label+"-method", []string{"Enqueue", "Dequeue", "Acknowledge", "Dequeue"}), K: rapid.IntRange(1, 6).Draw(t, label+"-k")})
		}
		return fs
	}
	c.Faults = gf("fault")
	c.Cfg.AsyncNotify = rapid.Bool().Draw(t, "async")
	// a configured context that is cancelled while items are pending or in flight
	if rapid.IntRange(0, 3).Draw(t, "withctx") == 0 {
		c.Cfg.Ctx = true
		var ctrl []Op
		for i := 0; i < rapid.IntRange(0, 4).Draw(t, "yields"); i++ {
			ctrl = append(ctrl, Op{Op: "yield"})
		}
		c.Clients[0] = append(ctrl, Op{Op: "cancelctx"})
	}
	// entries the worker cannot turn into a job (foreign producers, damaged entries) among valid stored
	// ones: they are reported and skipped, never acknowledged, and survive a crash like any other item
	if rapid.IntRange(0, 3).Draw(t, "withbad") == 0 {
		for i := 0; i < rapid.IntRange(1, 2).Draw(t, "npre"); i++ {
			c.Cfg.PreItems = append(c.Cfg.PreItems, Item{N: 9000 + i, ID: "pre" + itoa(i)})
		}
		for i := 0; i < rapid.IntRange(1, 2).Draw(t, "nbad"); i++ {
			c.Cfg.PreBad = append(c.Cfg.PreBad, BadEnt{Pos: rapid.IntRange(0, len(c.Cfg.PreItems)).Draw(t, "badpos"), Kind: pick(t, "badkind", []int{0, 1, 2, 3, 4, 5})})
		}
	}
	// one job whose worker function never returns (runtime.Goexit): it must stay unacknowledged
	if rapid.IntRange(0, 5).Draw(t, "withgoexit") == 0 {
		var adds []*Item
		for _, cl := range c.Clients {
			for _, op := range cl {
				if op.Op == "add" && op.It != nil {
					adds = append(adds, op.It)
				}
			}
		}
		if len(adds) > 0 {
			pick(t, "goexitjob", adds).Out = OutGoexit
		}
	}
	rs := genSched(t, pf, th)
	c.RecSched = &rs
	c.RecFaults = gf("recfault")
	return planOf(c)
}

// runRecovery starts a fresh worker on the recovered adapter contents and lets it drain.
func c11Recovery(base *Case, items []adItem, sched Sched, faults []Fault) *Result {
	c := &Case{Prop: "C11", Cfg: base.Cfg, Sched: sched, Faults: faults, Note: "recovery"}
	c.Cfg.PreItems = nil
	c.Clients = [][]Op{nil}
	return runCaseWith(c, items)
}

func c11Body(t failer, plan *c11Plan, st *Stats, spec *Spec) {
	base := plan.Base
	st.cur(base)
	full := RunCase(base)
	report := func(c *Case, r *Result, vs []Violation) bool {
		var unlisted []Violation
		for _, x := range vs {
			if f := matchFinding(x); f != nil {
				st.Known[f.ID]++
				continue
			}
			unlisted = append(unlisted, x)
		}
		if len(unlisted) == 0 {
			return false
		}
		st.Verdicts["violation"]++
		writeViolation(st.out, c, unlisted, r.Hist)
		t.Fatalf("VIOLATION %s", unlisted[0])
		return true
	}
	st.Evaluations++
	st.Steps += full.Rep.Steps
	if full.Rep.Unsupported != "" || full.Rep.StepLimit {
		st.Inconclusive++
		return
	}
	if len(full.Rep.Crashes) > 0 {
		st.SetAside["*/crash"]++
		return
	}
	ix := BuildIndex(full)
	vs := append(oC11Ack(ix), oC11Final(ix)...)
	if report(base, full, vs) {
		return
	}
	K := full.Env.adCalls
	ackFault := false
	for _, f := range base.Faults {
		if f.Method == "Acknowledge" {
			ackFault = true
		}
	}
	cutsWithUnacked := 0
	for k := 1; k <= K; k++ {
		cc := *base
		cc.Cut = k
		cc.Note = fmt.Sprintf("cut after %d of %d adapter calls", k, K)
		st.cur(&cc)
		r := RunCase(&cc)
		st.Evaluations++
		st.Steps += r.Rep.Steps
		cix := BuildIndex(r)
		vs := append(oC11Ack(cix), c11CrashLaw(cix)...)
		if report(&cc, r, vs) {
			return
		}
		if len(r.Env.qs) == 0 || r.Env.qs[0].ad == nil {
			continue
		}
		ad := r.Env.qs[0].ad
		if len(ad.unacked) > 0 {
			cutsWithUnacked++
		}
		rec := ad.recovered()
		rr := c11Recovery(base, rec, plan.RecSched, plan.RecFault)
		st.Evaluations++
		st.Steps += rr.Rep.Steps
		if rr.Rep.Unsupported != "" || rr.Rep.StepLimit {
			st.Inconclusive++
			continue
		}
		rix := BuildIndex(rr)
		var rvs []Violation
		rvs = append(rvs, oC11Ack(rix)...)
		rvs = append(rvs, oDeadlock("C11")(rix)...)
		if rix.Completed && !rr.Rep.Deadlock {
			seen := map[int]int{}
			for _, n := range rix.JobNums {
				seen[n] = len(rix.Jobs[n].Exits)
			}
			for _, it := range rec {
				n := jobOfItem(it.val)
				if n >= 0 && seen[n] == 0 {
					rvs = append(rvs, v("C11", "recovery-not-drained", "after a crash at adapter call %d the recovered adapter held job %d, but a fresh worker bound to it never processed it (final %+v)", k, n, *rix.Final))
				}
			}
		}
		for i := range rvs {
			rvs[i].Witness = fmt.Sprintf("[recovery after cut %d/%d] ", k, K) + rvs[i].Witness
		}
		if report(&cc, rr, rvs) {
			return
		}
	}
	st.Verdicts["ok"]++
	classes := []string{"kind:" + base.Cfg.Queues[0], fmt.Sprintf("faults:%d", len(base.Faults))}
	if cutsWithUnacked > 0 {
		classes = append(classes, "cut-with-unacked")
	}
	if ackFault {
		classes = append(classes, "ack-fault")
	}
	for _, ev := range full.Hist {
		if ev.K == "goexit" {
			classes = append(classes, "worker-function-goexit")
			break
		}
	}
	for _, cl := range classes {
		st.Classes[cl]++
	}
	if cutsWithUnacked > 0 || ackFault {
		st.nontrivial(histHash(full.Hist))
		st.sample(map[string]any{"case": base, "outcome": fmt.Sprintf("ok: %d adapter calls, every cut 1..%d checked and recovered (%d cuts had unacknowledged deliveries), classes %v", K, K, cutsWithUnacked, classes), "recovery_schedule": plan.RecSched, "recovery_faults": plan.RecFault})
	}
}

func init() {
	spec := &Spec{Prop: "C11"}
	spec.Custom = func(t *rapid.T, th bool, st *Stats) {
		plan := genC11(t, th)
		c11Body(t, plan, st, spec)
	}
	register(spec)
	replayCustom["C11"] = func(c *Case, raw []byte) []Violation {
		// a stored C11 case is re-run with the default recovery schedule; the full procedure is repeated
		st := newStats()
		st.out = ""
		rt := &captureT{}
		cc := *c
		cc.Cut = 0
		c11Body(rt, planOf(&cc), st, spec)
		return rt.vs
	}
}

type captureT struct{ vs []Violation }

func (c *captureT) Fatalf(format string, args ...any) {
	c.vs = append(c.vs, Violation{Prop: "C11", Oracle: "replay", Witness: fmt.Sprintf(format, args...)})
}
