package vharness

import (
	"errors"

	"github.com/goptics/varmq"
	"github.com/goptics/varmq/vrt"
	"github.com/goptics/varmq/vrt/vtime"
	"time"
)

// errName maps the library's exported error values to stable names (the texts are not part of any property).
func errName(err error) string {
	switch {
	case err == nil:
		return ""
	case errors.Is(err, varmq.ErrJobProcessing):
		return "ErrJobProcessing"
	case errors.Is(err, varmq.ErrJobAlreadyClosed):
		return "ErrJobAlreadyClosed"
	case errors.Is(err, varmq.ErrNotRunningWorker):
		return "ErrNotRunningWorker"
	case errors.Is(err, varmq.ErrRunningWorker):
		return "ErrRunningWorker"
	case errors.Is(err, varmq.ErrSameConcurrency):
		return "ErrSameConcurrency"
	}
	return "other: " + err.Error()
}

func (e *Env) item(it Item, q int) varmq.Item[Payload] {
	it2 := it
	e.items[it.N] = &it2
	e.itemQ[it.N] = q
	return varmq.Item[Payload]{ID: it.ID, Data: Payload{N: it.N, S: it.S}, Priority: it.Prio}
}

// call executes one client operation and logs call/ret events.
func (e *Env) call(c int, op Op) {
	skip := func(why string) {
		e.log(Ev{K: "skip", C: c, Op: op.Op, J: op.N, Q: op.Q, G: op.G, S: why})
	}
	ev := Ev{K: "call", C: c, Op: op.Op, J: -1, Q: -1, G: -1}
	ret := Ev{K: "ret", C: c, Op: op.Op, J: -1, Q: -1, G: -1}
	begin := func() { ret.Ref = e.log(ev) }
	end := func() { e.log(ret) }
	needQ := func() *qh {
		if op.Q < 0 || op.Q >= len(e.qs) {
			skip("no such queue")
			return nil
		}
		ev.Q, ret.Q = op.Q, op.Q
		return e.qs[op.Q]
	}
	needJ := func() *jobH {
		h := e.jobs[op.N]
		if h == nil {
			skip("no handle yet")
			return nil
		}
		ev.J, ret.J = op.N, op.N
		return h
	}
	needG := func() *groupH {
		g := e.groups[op.G]
		if g == nil {
			skip("no group yet")
			return nil
		}
		ev.G, ret.G = op.G, op.G
		return g
	}
	switch op.Op {
	case "add":
		q := needQ()
		if q == nil || op.It == nil {
			return
		}
		it := e.item(*op.It, op.Q)
		ev.J, ret.J = op.It.N, op.It.N
		ev.I = int64(op.It.Prio)
		begin()
		h, ok := q.add(it.Data, it.Priority, it.ID)
		ret.OK = ok
		if ok && h != nil {
			e.jobs[op.It.N] = h
			ret.S = h.id()
		}
		end()
	case "addall":
		q := needQ()
		if q == nil {
			return
		}
		if q.addAll == nil {
			skip("no AddAll on this queue kind")
			return
		}
		var items []varmq.Item[Payload]
		for _, it := range op.Items {
			items = append(items, e.item(it, op.Q))
		}
		ev.G, ret.G = op.G, op.G
		ev.I = int64(len(items))
		begin()
		g := q.addAll(items)
		e.groups[op.G] = g
		end()
	case "wait":
		if h := needJ(); h != nil {
			begin()
			h.wait()
			ret.St = h.status() // C16: sampled as early as possible after Wait has returned
			end()
		}
	case "result":
		if h := needJ(); h != nil {
			switch {
			case h.result != nil:
				begin()
				v, err := h.result()
				ret.I, ret.E, ret.OK = int64(v), errStr(err), err == nil
				end()
			case h.err != nil:
				ev.Op, ret.Op = "err", "err"
				begin()
				err := h.err()
				ret.E, ret.OK = errStr(err), err == nil
				end()
			default:
				ev.Op, ret.Op = "wait", "wait"
				begin()
				h.wait()
				end()
			}
		}
	case "close":
		if h := needJ(); h != nil {
			begin()
			err := h.close()
			ret.E, ret.OK = errName(err), err == nil
			end()
		}
	case "status":
		if h := needJ(); h != nil {
			begin()
			ret.St = h.status()
			end()
		}
	case "drain":
		if h := needJ(); h != nil && h.drain != nil {
			begin()
			h.drain()
			end()
		}
	case "gwait":
		if g := needG(); g != nil {
			begin()
			g.wait()
			end()
		}
	case "gpending":
		if g := needG(); g != nil {
			begin()
			ret.I = int64(g.npend())
			end()
		}
	case "gconsume":
		if g := needG(); g != nil {
			switch {
			case g.results != nil:
				begin()
				ch := g.results()
				for {
					r, ok := vrt.Recv2(ch)
					if !ok {
						break
					}
					e.log(Ev{K: "item", C: c, G: op.G, J: -1, Q: -1, S: r.JobId, I: int64(r.Data), E: errStr(r.Err), OK: r.Err == nil})
				}
				end()
			case g.errs != nil:
				begin()
				ch := g.errs()
				for {
					r, ok := vrt.Recv2(ch)
					if !ok {
						break
					}
					e.log(Ev{K: "item", C: c, G: op.G, J: -1, Q: -1, E: errStr(r)})
				}
				end()
			default:
				skip("plain group has no stream")
			}
		}
	case "purge":
		if q := needQ(); q != nil {
			begin()
			q.purge()
			end()
		}
	case "qclose":
		if q := needQ(); q != nil {
			begin()
			ret.E = errStr(q.close())
			end()
		}
	case "qpending":
		if q := needQ(); q != nil {
			begin()
			ret.I = int64(q.npend())
			end()
		}
	case "nproc":
		begin()
		ret.I = int64(e.w.NumProcessing())
		end()
	case "npend":
		begin()
		ret.I = int64(e.w.NumPending())
		end()
	case "nidle":
		begin()
		ret.I = int64(e.w.NumIdleWorkers())
		end()
	case "nconc":
		begin()
		ret.I = int64(e.w.NumConcurrency())
		end()
	case "wstatus":
		begin()
		ret.St = e.w.Status()
		end()
	case "metrics":
		begin()
		ret.Sn = e.snapshotMetricsOnly()
		end()
	case "wuf":
		begin()
		e.w.WaitUntilFinished()
		end()
	case "pause":
		begin()
		ret.E = errName(e.w.Pause())
		ret.St = e.w.Status()
		end()
	case "pausewait":
		begin()
		ret.E = errName(e.w.PauseAndWait())
		ret.St = e.w.Status()
		end()
	case "resume":
		begin()
		ret.E = errName(e.w.Resume())
		ret.St = e.w.Status()
		end()
	case "stop":
		begin()
		ret.E = errName(e.w.Stop())
		ret.St = e.w.Status()
		end()
	case "waitstop":
		begin()
		ret.E = errName(e.w.WaitAndStop())
		ret.St = e.w.Status()
		end()
	case "restart":
		begin()
		ret.E = errName(e.w.Restart())
		ret.St = e.w.Status()
		e.restarts++
		vrt.Wake(vrt.KeyOf(&e.restarts))
		end()
	case "tune":
		ev.I = int64(op.V)
		begin()
		ret.E = errName(e.w.TunePool(op.V))
		ret.I = int64(e.w.NumConcurrency())
		ret.St = e.w.Status()
		end()
	case "bind":
		ev.S = op.Kind
		idx := len(e.qs)
		ev.Q, ret.Q = idx, idx
		begin()
		q := e.bind(op.Kind, idx, nil)
		e.qs = append(e.qs, q)
		ret.St = e.w.Status()
		end()
	case "cancelctx":
		if e.ctxCancel == nil {
			skip("no context")
			return
		}
		begin()
		e.ctxCancelled = true
		vrt.Cancel(e.ctxCancel)
		end()
	case "release":
		ev.J, ret.J = op.N, op.N
		begin()
		e.releaseGate(op.N)
		end()
	case "sleep":
		ev.I = int64(op.V)
		begin()
		vtime.Sleep(time.Duration(op.V) * time.Microsecond)
		end()
	case "settle":
		begin()
		vrt.Settle()
		ret.Sn = e.snapshot(true)
		end()
	case "snap":
		begin()
		ret.Sn = e.snapshot(true)
		end()
	case "yield":
		vrt.Point("yield")
	case "barrier":
		// all clients whose program has a V-th barrier meet here; the last to arrive goes on first
		// in the base schedule, so racing operations can be lined up after a common set-up
		if e.barArrived == nil {
			e.barArrived = map[int]int{}
		}
		e.barArrived[op.V]++
		need := 0
		for _, cl := range e.c.Clients {
			for _, o := range cl {
				if o.Op == "barrier" && o.V == op.V {
					need++
					break
				}
			}
		}
		k := op.V
		vrt.Wake(vrt.KeyOf(e) + 1000003)
		e.barWaiting++
		vrt.Block(vrt.KeyOf(e)+1000003, "barrier", func() bool { return e.barArrived[k] >= need || e.barOpen[k] })
		e.barWaiting--
	default:
		skip("unknown op")
	}
}

func (e *Env) snapshotMetricsOnly() *Snap {
	sn := &Snap{}
	m := e.w.Metrics()
	// separate loads: not atomic as a group, like a real reader
	sn.Submitted = m.Submitted()
	sn.Completed = m.Completed()
	sn.Success = m.Successful()
	sn.Failed = m.Failed()
	sn.OKSnap = true
	return sn
}
