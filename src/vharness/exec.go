package vharness

import (
	"os"
	"github.com/goptics/varmq/vrt"
)

// Result of executing one case.
type Result struct {
	Case *Case
	Hist []Ev
	Rep  *vrt.Report
	Env  *Env
	Dev  *Dev // the chooser, when the schedule is a deviation list
}

func mkChooser(s Sched) vrt.Chooser {
	switch s.Strategy {
	case "dev":
		d := &Dev{}
		for _, x := range s.Devs {
			d.Devs = append(d.Devs, Deviation{Skip: x[0], Pick: x[1]})
		}
		return d
	case "pct":
		span := s.Span
		if span <= 0 {
			span = 400
		}
		return NewPCT(s.Seed, s.Depth, span)
	case "pctl":
		return NewPCTL(s.Seed, s.Devs)
	case "rw":
		den, cden := s.Den, s.ClockDen
		if den < 2 {
			den = 2
		}
		return NewRW(s.Seed, uint64(den), uint64(cden))
	default:
		return &Dev{}
	}
}

// MaxStepsDefault bounds an episode; reaching it is "inconclusive" (except the C03 livelock rule).
var MaxStepsDefault = 3_000_000

// RunCase executes a case on the coop runtime. It is a pure function of the case.
func RunCase(c *Case) *Result {
	if c.Sched.Strategy == "devu" {
		resolveDevu(c)
	}
	return runCaseWith(c, nil)
}

// resolveDevu turns a "devu" schedule (deviations given as permille of the choice points that remain
// after the previous deviation) into the plain deviation list it denotes for this program, by running
// the prefixes. The case is rewritten in place, so what is stored and replayed is the plain list.
func resolveDevu(c *Case) {
	var abs [][2]int
	for _, f := range c.Sched.Devs {
		cc := *c
		cc.Sched = Sched{Strategy: "dev", Devs: abs}
		r := runCaseWith(&cc, nil)
		if r.Dev == nil {
			break
		}
		rem := r.Dev.Multi
		if len(abs) > 0 {
			if len(r.Dev.FiredAt) < len(abs) {
				break
			}
			rem = r.Dev.Multi - r.Dev.FiredAt[len(abs)-1] - 1
		}
		if rem <= 0 {
			break
		}
		abs = append(abs, [2]int{f[0] * rem / 1000, f[1]})
	}
	c.Sched = Sched{Strategy: "dev", Devs: abs}
}

// runCaseWith additionally places raw items on adapter queue 0 before binding (C11 recovery).
func runCaseWith(c *Case, preRaw []adItem) *Result {
	e := &Env{preRaw: preRaw, c: c, jobs: map[int]*jobH{}, groups: map[int]*groupH{}, items: map[int]*Item{}, itemQ: map[int]int{}, open: map[int]bool{}}
	opt := vrt.Options{Chooser: mkChooser(c.Sched), MaxSteps: MaxStepsDefault, OnQuiescent: e.onQuiescent, Trace: os.Getenv("VERIF_TRACE") != ""}
	if c.Cut > 0 {
		cut := c.Cut
		opt.StopWhen = func() bool { return e.adCalls >= cut }
	}
	rep := vrt.Run(opt, e.root)
	d, _ := opt.Chooser.(*Dev)
	return &Result{Case: c, Hist: e.hist, Rep: rep, Env: e, Dev: d}
}
