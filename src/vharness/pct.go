package vharness

import "github.com/goptics/varmq/vrt"

// PCT chooser: random initial priorities; d-1 change points (step indices) at
// which the running goroutine's priority drops below everything else.
type PCT struct {
	rng     RW
	prio    map[int]int
	changes map[int]bool
	low     int
	clockP  int
}

func NewPCT(seed uint64, depth int, maxSteps int) *PCT {
	p := &PCT{rng: *NewRW(seed, 2, 0), prio: map[int]int{}, changes: map[int]bool{}, low: 0}
	for i := 0; i < depth-1; i++ {
		p.changes[int(p.rng.next()%uint64(maxSteps))] = true
	}
	p.clockP = int(p.rng.next()%1000) + 1000
	return p
}
func (p *PCT) Spawned(g *vrt.G) { p.prio[g.ID] = int(p.rng.next()%1000) + 1000 }
func (p *PCT) Pick(step int, en []*vrt.G, me *vrt.G, clockOK bool) (*vrt.G, bool) {
	if p.changes[step] {
		p.low--
		if me != nil {
			p.prio[me.ID] = p.low
		}
	}
	var best *vrt.G
	for _, g := range en {
		if best == nil || p.prio[g.ID] > p.prio[best.ID] {
			best = g
		}
	}
	if clockOK && (best == nil || p.clockP > p.prio[best.ID]) {
		p.low--
		p.clockP = p.low // after a tick the clock goes to the back
		return nil, true
	}
	return best, false
}

// PCTL is PCT whose priority-change points are placed by operation label: the
// k-th occurrence of a scheduling point with a given label (e.g. the 2nd Cond.Wait),
// instead of a uniformly drawn step. Rare operations are hit far more often.
type PCTL struct {
	PCT
	marks map[string]map[int]bool
	seen  map[string]int
}

// Labels are the scheduling-point names the runtime and its shims use.
var Labels = []string{"atomic.Load", "atomic.Store", "atomic.Add", "atomic.CAS", "Mutex.Lock", "Mutex.Unlock", "RWMutex.Lock", "RWMutex.Unlock", "RWMutex.RLock", "RWMutex.RUnlock",
	"WaitGroup.Add", "WaitGroup.Wait", "Cond.Wait", "Cond.Broadcast", "chan send", "chan recv", "chan close", "select", "go", "Pool.Get", "Pool.Put", "time.Now", "wf", "gate", "adapter.Enqueue", "adapter.Dequeue", "adapter.Acknowledge", "adapter.Len", "cancel"}

func NewPCTL(seed uint64, marks [][2]int) *PCTL {
	p := &PCTL{PCT: *NewPCT(seed, 1, 1), marks: map[string]map[int]bool{}, seen: map[string]int{}}
	for _, m := range marks {
		l := Labels[m[0]%len(Labels)]
		if p.marks[l] == nil {
			p.marks[l] = map[int]bool{}
		}
		p.marks[l][m[1]] = true
	}
	return p
}

func (p *PCTL) Pick(step int, en []*vrt.G, me *vrt.G, clockOK bool) (*vrt.G, bool) {
	w := vrt.CurWhat()
	if i := len(w); i > 7 && w[:7] == "select " {
		w = "select"
	}
	if me != nil {
		k := p.seen[w]
		p.seen[w] = k + 1
		if p.marks[w][k] {
			p.low--
			p.prio[me.ID] = p.low
		}
	}
	return p.PCT.Pick(-1, en, me, clockOK)
}
