package vharness

import "github.com/goptics/varmq/vrt"

// PCT chooser: random initial priorities; d-1 change points (step indices) at
// which the running goroutine's priority drops below everything else.
type PCT struct {
	rng     RW
	prio    map[int]int
	changes map[int]bool
	low     int
	clockP  int
}

func NewPCT(seed uint64, depth int, maxSteps int) *PCT {
	p := &PCT{rng: *NewRW(seed, 2, 0), prio: map[int]int{}, changes: map[int]bool{}, low: 0}
	for i := 0; i < depth-1; i++ {
		p.changes[int(p.rng.next()%uint64(maxSteps))] = true
	}
	p.clockP = int(p.rng.next()%1000) + 1000
	return p
}
func (p *PCT) Spawned(g *vrt.G) { p.prio[g.ID] = int(p.rng.next()%1000) + 1000 }
func (p *PCT) Pick(step int, en []*vrt.G, me *vrt.G, clockOK bool) (*vrt.G, bool) {
	if p.changes[step] {
		p.low--
		if me != nil {
			p.prio[me.ID] = p.low
		}
	}
	var best *vrt.G
	for _, g := range en {
		if best == nil || p.prio[g.ID] > p.prio[best.ID] {
			best = g
		}
	}
	if clockOK && (best == nil || p.clockP > p.prio[best.ID]) {
		p.low--
		p.clockP = p.low // after a tick the clock goes to the back
		return nil, true
	}
	return best, false
}
