package vharness

import (
	"pgregory.net/rapid"
)

// Profile shapes the generated programs of one property.
type Profile struct {
	Kinds      []string // worker kinds
	QKinds     []string // queue kinds for plain workers (err/res workers: std, prio only)
	MaxQueues  int
	Concs      []int
	Expiry     []int
	Ratio      []int
	Strategies []int
	CtxProb    int // percent
	IDGenProb  int
	ErrsReader int // percent
	MinClients int
	MaxClients int
	MaxOps     int
	Ops        map[string]int // weights of client ops
	Ctrl       map[string]int // weights of controller ops ("" = none)
	MaxCtrl    int
	GatedProb  int
	Outs       []int // allowed outcomes
	MaxBatch   int
	BurstProb  int // permille of "addmany" ops being a large burst across segment boundaries
	Prios      []int
	FinalStop  bool
	StartPausedProb int
	Avoid      map[string]bool
	SchedKinds []string
	MaxDevs    int
	WQueueProb int // percent of "std" queues replaced by a user-supplied acknowledging FIFO adapter (WithQueue)
	RaceProb   int // percent of programs reshaped into "set-up, barrier, short racers" (0 = default 30, <0 = never)
}

func pick[T any](t *rapid.T, label string, xs []T) T {
	return xs[rapid.IntRange(0, len(xs)-1).Draw(t, label)]
}

func pct(t *rapid.T, label string, p int) bool {
	if p <= 0 {
		return false
	}
	if p >= 100 {
		return true
	}
	return rapid.IntRange(0, 99).Draw(t, label) < p
}

func weighted(t *rapid.T, label string, w map[string]int, order []string) string {
	total := 0
	for _, k := range order {
		total += w[k]
	}
	if total == 0 {
		return ""
	}
	x := rapid.IntRange(0, total-1).Draw(t, label)
	for _, k := range order {
		if x < w[k] {
			return k
		}
		x -= w[k]
	}
	return ""
}

var opOrder = []string{"add", "addall", "addmany", "wait", "result", "close", "status", "drain", "gwait", "gpending", "gconsume", "purge", "qclose", "qpending",
	"nproc", "npend", "nidle", "nconc", "wstatus", "metrics", "wuf", "release", "sleep", "settle", "snap", "yield", "pause", "resume", "pausewait", "stop", "waitstop"}
var ctrlOrder = []string{"pause", "pausewait", "resume", "stop", "waitstop", "restart", "tune", "bind", "cancelctx", "settle", "sleep", "wuf"}

func genSched(t *rapid.T, pf *Profile, thorough bool) Sched {
	kinds := pf.SchedKinds
	if len(kinds) == 0 {
		kinds = []string{"dev", "dev", "pct", "rw", "pctl"}
	}
	switch pick(t, "sched", kinds) {
	case "base":
		return Sched{Strategy: "base"}
	case "pct":
		return Sched{Strategy: "pct", Seed: rapid.Uint64Range(1, 1<<40).Draw(t, "pctseed"), Depth: rapid.IntRange(1, 5).Draw(t, "depth"), Span: pick(t, "span", []int{100, 300, 800, 2000})}
	case "pctl":
		sc := Sched{Strategy: "pctl", Seed: rapid.Uint64Range(1, 1<<40).Draw(t, "pctlseed")}
		for i := 0; i < rapid.IntRange(1, 3).Draw(t, "nmarks"); i++ {
			sc.Devs = append(sc.Devs, [2]int{rapid.IntRange(0, len(Labels)-1).Draw(t, "label"), rapid.IntRange(0, 6).Draw(t, "occurrence")})
		}
		return sc
	case "rw":
		return Sched{Strategy: "rw", Seed: rapid.Uint64Range(1, 1<<40).Draw(t, "rwseed"), Den: pick(t, "den", []int{2, 3, 5, 10, 30}), ClockDen: pick(t, "clockden", []int{0, 20, 50, 200})}
	default:
		max := pf.MaxDevs
		if max == 0 {
			max = 8
			if thorough {
				max = 16
			}
		}
		n := rapid.IntRange(0, max).Draw(t, "ndevs")
		s := Sched{Strategy: "dev"}
		for i := 0; i < n; i++ {
			s.Devs = append(s.Devs, [2]int{rapid.IntRange(0, 150).Draw(t, "skip"), rapid.IntRange(0, 5).Draw(t, "pick")})
		}
		return s
	}
}

type genState struct {
	t      *rapid.T
	pf     *Profile
	cfg    *Config
	nextN  int
	nextG  int
	jobs   []int // job numbers with handles (single adds on in-memory queues)
	mine   []int
	groups []int
	gated  []int
	thorough bool
}

func (g *genState) item(q int) Item {
	t := g.t
	g.nextN++
	it := Item{N: g.nextN}
	kind := g.cfg.Queues[q%len(g.cfg.Queues)]
	if kind == "prio" || kind == "persprio" || kind == "distprio" {
		pr := g.pf.Prios
		if len(pr) == 0 {
			pr = []int{0, 0, 1, 1, 2, -1, 5}
		}
		it.Prio = pick(t, "prio", pr)
	}
	if pct(t, "hasid", 40) {
		it.ID = pick(t, "id", []string{"a", "b", "job-1", "x y", "é", "A", "50%off", "%d%s%v", "q\"uo\\te", "\x01ctl\x7f", "g:pre"})
	}
	if pct(t, "gated", g.pf.GatedProb) {
		it.Gated = true
	}
	if len(g.pf.Outs) > 0 {
		it.Out = pick(t, "out", g.pf.Outs)
	}
	return it
}

func (g *genState) op(kind string) (Op, bool) {
	t := g.t
	nq := len(g.cfg.Queues)
	q := 0
	if nq > 1 {
		q = rapid.IntRange(0, nq-1).Draw(t, "q")
	}
	handle := func() (int, bool) {
		if len(g.jobs) == 0 {
			return 0, false
		}
		if len(g.mine) > 0 && pct(t, "mine", 70) {
			return pick(t, "hmine", g.mine), true
		}
		return pick(t, "h", g.jobs), true
	}
	group := func() (int, bool) {
		if len(g.groups) == 0 {
			return 0, false
		}
		return pick(t, "g", g.groups), true
	}
	inMem := func(q int) bool { return isMemKind(g.cfg.Queues[q]) }
	switch kind {
	case "add":
		it := g.item(q)
		if inMem(q) {
			g.jobs = append(g.jobs, it.N)
			g.mine = append(g.mine, it.N)
		}
		if it.Gated {
			g.gated = append(g.gated, it.N)
		}
		return Op{Op: "add", Q: q, It: &it}, true
	case "addall", "addmany":
		if !inMem(q) {
			if kind == "addall" {
				return Op{}, false
			}
		}
		max := g.pf.MaxBatch
		if max == 0 {
			max = 6
		}
		n := rapid.IntRange(0, max).Draw(t, "batch")
		if kind == "addmany" {
			n = rapid.IntRange(2, max+2).Draw(t, "many")
			if g.pf.BurstProb > 0 && rapid.IntRange(0, 999).Draw(t, "burst") < g.pf.BurstProb {
				n = pick(t, "burstn", []int{1023, 1024, 1025, 1030, 2559, 2560, 2561, 2570})
			}
		}
		var items []Item
		for i := 0; i < n; i++ {
			it := g.item(q)
			if inMem(q) {
				it.ID = "" // explicit batch item IDs are unique; one item in four has none
				if !pct(t, "noid", 25) {
					it.ID = pick(t, "bidprefix", []string{"b", "b", "b%", "%v-", "b\x02"}) + itoa(it.N)
				}
			}
			if n > 50 {
				it.Gated = false
				if !inMem(q) {
					it.ID = ""
				}
			}
			if it.Gated {
				g.gated = append(g.gated, it.N)
			}
			items = append(items, it)
		}
		if !inMem(q) {
			// no AddAll on adapter queues: a run of single adds is generated by the caller
			return Op{Op: "addmany", Q: q, Items: items}, true
		}
		gn := g.nextG
		g.nextG++
		g.groups = append(g.groups, gn)
		return Op{Op: "addall", Q: q, G: gn, Items: items}, true
	case "wait", "result", "close", "status", "drain":
		h, ok := handle()
		if !ok {
			return Op{}, false
		}
		return Op{Op: kind, N: h}, true
	case "gwait", "gpending", "gconsume":
		gr, ok := group()
		if !ok {
			return Op{}, false
		}
		return Op{Op: kind, G: gr}, true
	case "purge", "qclose", "qpending":
		return Op{Op: kind, Q: q}, true
	case "release":
		if len(g.gated) == 0 {
			return Op{}, false
		}
		return Op{Op: "release", N: pick(t, "rel", g.gated)}, true
	case "sleep":
		return Op{Op: "sleep", V: pick(t, "sleepus", []int{10, 60, 120, 600, 1100, 2500, 5000})}, true
	case "tune":
		return Op{Op: "tune", V: pick(t, "tune", []int{1, 2, 3, 4, 8, 0, -1, 2, 3})}, true
	case "bind":
		kinds := []string{"std", "prio"}
		if g.cfg.Kind == "plain" {
			kinds = g.pf.QKinds
		}
		return Op{Op: "bind", Kind: pick(t, "bindkind", kinds)}, true
	default:
		return Op{Op: kind}, true
	}
}

func genConfig(t *rapid.T, pf *Profile) Config {
	cfg := Config{Kind: pick(t, "kind", pf.Kinds)}
	nq := 1
	if pf.MaxQueues > 1 {
		nq = rapid.IntRange(1, pf.MaxQueues).Draw(t, "nq")
	}
	qk := []string{"std", "prio"}
	if cfg.Kind == "plain" && len(pf.QKinds) > 0 {
		qk = pf.QKinds
	}
	for i := 0; i < nq; i++ {
		k := pick(t, "qkind", qk)
		if k == "std" && pct(t, "wqueue", pf.WQueueProb) {
			k = "wstd" // the same FIFO contract, but a user-supplied adapter bound with WithQueue
		}
		cfg.Queues = append(cfg.Queues, k)
	}
	cfg.Conc = pick(t, "conc", pf.Concs)
	if len(pf.Expiry) > 0 {
		cfg.ExpiryUs = pick(t, "expiry", pf.Expiry)
	}
	if len(pf.Ratio) > 0 {
		cfg.Ratio = pick(t, "ratio", pf.Ratio)
	}
	if len(pf.Strategies) > 0 {
		cfg.Strategy = pick(t, "strategy", pf.Strategies)
	}
	cfg.Ctx = pct(t, "ctx", pf.CtxProb)
	cfg.IDGen = pct(t, "idgen", pf.IDGenProb)
	cfg.ErrsReader = pct(t, "errsreader", pf.ErrsReader)
	cfg.StartPaused = pct(t, "startpaused", pf.StartPausedProb)
	cfg.FinalStop = pf.FinalStop
	return cfg
}

// genProgram draws a whole case from a profile.
func genProgram(t *rapid.T, prop string, pf *Profile, thorough bool) *Case {
	cfg := genConfig(t, pf)
	c := &Case{Prop: prop, Cfg: cfg, Avoid: pf.Avoid}
	g := &genState{t: t, pf: pf, cfg: &c.Cfg, thorough: thorough}
	// controller (client 0)
	var ctrl []Op
	if len(pf.Ctrl) > 0 && pf.MaxCtrl > 0 {
		n := rapid.IntRange(0, pf.MaxCtrl).Draw(t, "nctrl")
		for i := 0; i < n; i++ {
			k := weighted(t, "ctrlop", pf.Ctrl, ctrlOrder)
			if k == "cancelctx" && !cfg.Ctx {
				continue
			}
			if op, ok := g.op(k); ok {
				ctrl = append(ctrl, op)
			}
		}
	}
	c.Clients = append(c.Clients, ctrl)
	nc := rapid.IntRange(pf.MinClients, pf.MaxClients).Draw(t, "nclients")
	for ci := 0; ci < nc; ci++ {
		g.mine = nil
		var ops []Op
		n := rapid.IntRange(1, pf.MaxOps).Draw(t, "nops")
		for i := 0; i < n; i++ {
			k := weighted(t, "op", pf.Ops, opOrder)
			op, ok := g.op(k)
			if !ok {
				continue
			}
			if op.Op == "addmany" {
				// expand into single adds (adapter queues / bursts without a batch handle)
				for _, it := range op.Items {
					it := it
					if isMemKind(c.Cfg.Queues[op.Q]) {
						g.jobs = append(g.jobs, it.N)
						g.mine = append(g.mine, it.N)
					}
					ops = append(ops, Op{Op: "add", Q: op.Q, It: &it})
				}
				continue
			}
			ops = append(ops, op)
		}
		c.Clients = append(c.Clients, ops)
	}
	// a user-supplied acknowledging adapter may refuse acknowledgements (in-memory jobs are never
	// acknowledged by the library, so on a correct tree this changes nothing)
	wq, onlyMem := false, true
	for _, k := range c.Cfg.Queues {
		wq = wq || k == "wstd"
		onlyMem = onlyMem && isMemKind(k)
	}
	if wq && onlyMem && len(c.Faults) == 0 && pct(t, "wqackfault", 50) {
		for i := 0; i < rapid.IntRange(1, 2).Draw(t, "nwqfaults"); i++ {
			c.Faults = append(c.Faults, Fault{Method: pick(t, "wqfmethod", []string{"Acknowledge", "Acknowledge", "Dequeue"}), K: rapid.IntRange(1, 4).Draw(t, "wqfk")})
		}
	}
	c.Sched = genSched(t, pf, thorough)
	rp := pf.RaceProb
	if rp == 0 {
		rp = 30
	}
	if pct(t, "race", rp) {
		raceify(t, c)
	}
	return c
}

// raceify reshapes a program into a race experiment: every client keeps a short set-up prefix, then
// all meet at a barrier (the last client settles first, so the set-up has taken effect), then each
// runs one to three operations. The schedule is the base schedule with one to three deviations
// placed uniformly over the choice points the episode really has ("devu", resolved by RunCase).
func raceify(t *rapid.T, c *Case) {
	last := -1
	for ci := range c.Clients {
		if len(c.Clients[ci]) > 0 {
			last = ci
		}
	}
	if last < 0 {
		return
	}
	for ci, ops := range c.Clients {
		if len(ops) == 0 {
			continue
		}
		m := len(ops)
		if m > 3 {
			m = 3
		}
		pos := rapid.IntRange(0, m).Draw(t, "setup")
		if pos == len(ops) {
			pos = len(ops) - 1
		}
		end := pos + rapid.IntRange(1, 3).Draw(t, "racers")
		if end > len(ops) {
			end = len(ops)
		}
		n := append([]Op{}, ops[:pos]...)
		if ci == last {
			n = append(n, Op{Op: "settle"})
		}
		n = append(n, Op{Op: "barrier"})
		n = append(n, ops[pos:end]...)
		c.Clients[ci] = n
	}
	items := 0
	for _, ops := range c.Clients {
		for _, op := range ops {
			if op.It != nil {
				items++
			}
			items += len(op.Items)
		}
	}
	if items <= 12 && rapid.IntRange(0, 4).Draw(t, "sweep1") == 0 {
		c.Sched = Sched{Strategy: "sweep1"}
		return
	}
	sc := Sched{Strategy: "devu"}
	for i := 0; i < rapid.IntRange(1, 3).Draw(t, "ndevu"); i++ {
		sc.Devs = append(sc.Devs, [2]int{rapid.IntRange(0, 999).Draw(t, "where"), rapid.IntRange(0, 3).Draw(t, "alt")})
	}
	c.Sched = sc
}

func itoa(n int) string {
	if n == 0 {
		return "0"
	}
	neg := n < 0
	if neg {
		n = -n
	}
	var b []byte
	for n > 0 {
		b = append([]byte{byte('0' + n%10)}, b...)
		n /= 10
	}
	if neg {
		b = append([]byte{'-'}, b...)
	}
	return string(b)
}
