// Package vharness: generators, executor of client programs on the vrt coop
// runtime, recording adapters, history index / reference model and oracles
// for the varmq properties C01..C18. It uses only varmq's public API.
package vharness

import (
	"encoding/json"
	"fmt"
	"hash/fnv"

	"github.com/goptics/varmq/vrt"
)

// Payload is the job data type used by all coop episodes. N is the job's
// unique number inside the episode, S is free content (C07/C12).
type Payload struct {
	N int    `json:"n"`
	S string `json:"s,omitempty"`
}

// MarshalJSON is user code that runs inside Add on persistent/distributed queues: it yields, so two
// producers' serializations can interleave (a library that shares an encoder between them shows).
func (p Payload) MarshalJSON() ([]byte, error) {
	vrt.Point("Payload.MarshalJSON")
	type plain Payload
	b, err := json.Marshal(plain(p))
	vrt.Point("Payload.MarshalJSON")
	return b, err
}

// outcome kinds of the worker function for a job
const (
	OutVal = iota
	OutErr
	OutPanicStr
	OutPanicErr
	OutPanicNil // nil-pointer dereference (runtime error)
	OutGoexit   // the worker function leaves through runtime.Goexit (e.g. t.FailNow inside it): it never returns
	OutPanicStruct // panic with a value that is neither a string nor an error
)

// Config of one episode.
type Config struct {
	Kind        string   `json:"kind"`             // plain | err | res
	Queues      []string `json:"queues"`           // std prio pers persprio dist distprio
	Conc        int      `json:"conc"`             // as passed to the constructor (<1 = NumCPU)
	Strategy    int      `json:"strategy"`         // 0 RoundRobin 1 MaxLen 2 MinLen
	ExpiryUs    int      `json:"expiry_us"`        // idle worker expiry (0 = off), virtual microseconds
	Ratio       int      `json:"ratio"`            // min idle ratio (0 = unset)
	Ctx         bool     `json:"ctx"`              // WithContext(cancellable)
	IDGen       bool     `json:"idgen"`            // WithJobIdGenerator(counter)
	ErrsReader  bool     `json:"errs_reader"`      // a goroutine consumes Errs()
	Consumers   []int    `json:"consumers"`        // C13: concurrency of extra consumer workers bound to the same distributed adapters
	AsyncNotify bool     `json:"async_notify"`     // adapter notifications delivered by a notifier goroutine
	StartPaused bool     `json:"start_paused"`     // PauseAndWait right after binding (pre-loading)
	PreItems    []Item   `json:"pre,omitempty"`    // items present on adapter queue 0 before binding
	PreBad      []BadEnt `json:"prebad,omitempty"` // C12: bad entries, by position among PreItems
	FinalStop   bool     `json:"final_stop"`       // epilogue ends with Stop + leak accounting
	NoCtrlTail  bool     `json:"no_ctrl_tail,omitempty"` // the controller does not bring the worker back to Running after its own calls (the epilogue does, after every client has finished)
}

type BadEnt struct {
	Pos  int    `json:"pos"`
	Kind int    `json:"kind"` // 0 non-JSON bytes, 1 wrong status, 2 JSON of another type, 3 non-[]byte item, 4 truncated JSON, 5 valid entry + trailing garbage, 6 two entries glued
}

// Item is one submission.
type Item struct {
	N     int    `json:"n"`
	Prio  int    `json:"prio,omitempty"`
	ID    string `json:"id,omitempty"`
	Gated bool   `json:"gated,omitempty"`
	Out   int    `json:"out,omitempty"`
	S     string `json:"s,omitempty"`
}

// Op is one client operation.
type Op struct {
	Op    string `json:"op"`
	Q     int    `json:"q,omitempty"`
	N     int    `json:"n,omitempty"`     // job number (handle ops) / count
	G     int    `json:"g,omitempty"`     // group number
	V     int    `json:"v,omitempty"`     // value (tune, sleep us)
	Kind  string `json:"kind,omitempty"`  // bind: queue kind
	It    *Item  `json:"it,omitempty"`    // add
	Items []Item `json:"items,omitempty"` // addall / addmany
}

// Sched describes the schedule.
type Sched struct {
	Strategy string   `json:"strategy"` // dev | pct | rw | base
	Devs     [][2]int `json:"devs,omitempty"`
	Seed     uint64   `json:"seed,omitempty"`
	Depth    int      `json:"depth,omitempty"`
	Den      int      `json:"den,omitempty"`
	ClockDen int      `json:"clock_den,omitempty"`
	Span     int      `json:"span,omitempty"` // pct: step range for change points
}

type Fault struct {
	Method string `json:"m"` // Enqueue | Dequeue | Acknowledge
	K      int    `json:"k"` // k-th call of that method fails (1-based)
}

// Case is everything an episode depends on.
type Case struct {
	Prop    string          `json:"property"`
	Cfg     Config          `json:"config"`
	Clients [][]Op          `json:"clients"` // client 0 is the controller (lifecycle calls only there)
	Sched   Sched           `json:"schedule"`
	Faults  []Fault         `json:"faults,omitempty"`
	Cut     int             `json:"cut"` // crash cut after this many adapter calls (0 = none)
	Avoid   map[string]bool `json:"avoid,omitempty"`
	Note    string          `json:"note,omitempty"`
	// C11: schedule and fault plan of the recovery episodes
	RecSched  *Sched  `json:"recovery_schedule,omitempty"`
	RecFaults []Fault `json:"recovery_faults,omitempty"`
}

func (c *Case) JSON() []byte {
	b, err := json.Marshal(c)
	if err != nil {
		panic(err)
	}
	return b
}

func ParseCase(b []byte) (*Case, error) {
	var c Case
	if err := json.Unmarshal(b, &c); err != nil {
		return nil, err
	}
	return &c, nil
}

// Ev is one history event; the slice index is its position (a total order).
type Ev struct {
	K   string `json:"k"`             // call ret enter exit item q ad final skip env
	C   int    `json:"c"`             // client (-1 library side, -2 root/hook)
	Op  string `json:"op,omitempty"`  // op / adapter method
	J   int    `json:"j"`             // job number or -1
	Q   int    `json:"q"`             // queue or -1
	G   int    `json:"g"`             // group or -1
	W   int    `json:"w,omitempty"`   // worker index (enter/exit)
	I   int64  `json:"i,omitempty"`   // int result
	OK  bool   `json:"ok,omitempty"`  // bool result
	S   string `json:"s,omitempty"`   // string result / id
	E   string `json:"e,omitempty"`   // error text
	St  string `json:"st,omitempty"`  // status string
	D   string `json:"d,omitempty"`   // data content seen
	Ref int    `json:"ref,omitempty"` // ret: position of the matching call
	T   int64  `json:"t,omitempty"`   // virtual clock (ns)
	Sn  *Snap  `json:"sn,omitempty"`
}

// Snap is an atomic snapshot of the introspection API.
type Snap struct {
	Status    string   `json:"status"`
	QPending  []int    `json:"qpending"`
	WPending  int      `json:"wpending"`
	Proc      int      `json:"proc"`
	Idle      int      `json:"idle"`
	Conc      int      `json:"conc"`
	Submitted uint64   `json:"submitted"`
	Completed uint64   `json:"completed"`
	Success   uint64   `json:"successful"`
	Failed    uint64   `json:"failed"`
	InFlight  int      `json:"inflight"` // harness count: entered, not exited
	Gates     int      `json:"gates"`    // jobs parked on a closed gate
	LiveLib   int      `json:"livelib"`  // live library goroutines
	JobSt     []string `json:"jobst,omitempty"`
	AdPending []int    `json:"adpending,omitempty"`
	AdUnacked []int    `json:"adunacked,omitempty"`
	Clock     int64    `json:"clock"`
	OKSnap    bool     `json:"oksnap"`
	Cons      []ConsSnap `json:"cons,omitempty"`
}

type ConsSnap struct {
	Submitted uint64 `json:"submitted"`
	Completed uint64 `json:"completed"`
	Status    string `json:"status"`
}

func (e Ev) String() string {
	b, _ := json.Marshal(e)
	return string(b)
}

// Violation is one oracle failure.
type Violation struct {
	Prop    string `json:"property"`
	Oracle  string `json:"oracle"`
	Witness string `json:"witness"`
}

func (v Violation) String() string { return fmt.Sprintf("%s/%s: %s", v.Prop, v.Oracle, v.Witness) }

func hash64(parts ...any) uint64 {
	h := fnv.New64a()
	for _, p := range parts {
		fmt.Fprint(h, p, "|")
	}
	return h.Sum64()
}
