package vharness

import "github.com/goptics/varmq/vrt"

// Dev is the deviation-list chooser: the default schedule is "keep running the
// current goroutine; when it blocks, run the enabled goroutine with the lowest
// id after it (round robin)". Each deviation (Skip, Pick) lets the default run
// for Skip more scheduling points and then picks enabled[(default+Pick) mod n],
// where Pick may also select the virtual clock.
type Deviation struct {
	Skip int
	Pick int
}
type Dev struct {
	Devs  []Deviation
	i     int
	count int
	Trace []int32
	Multi   int   // scheduling points with more than one choice so far
	FiredAt []int // value of Multi when each deviation fired
}

func (d *Dev) Spawned(g *vrt.G) {}
func (d *Dev) Pick(step int, en []*vrt.G, me *vrt.G, clockOK bool) (*vrt.G, bool) {
	// default choice index
	def := 0
	if me != nil {
		for i, g := range en {
			if g == me {
				def = i
			}
		}
	}
	n := len(en)
	if clockOK {
		n++
	}
	choice := def
	if n > 1 {
		d.Multi++
	}
	if d.i < len(d.Devs) && n > 1 {
		if d.count >= d.Devs[d.i].Skip {
			d.FiredAt = append(d.FiredAt, d.Multi-1)
			choice = (def + 1 + d.Devs[d.i].Pick%(n-1)) % n
			d.i++
			d.count = 0
		} else {
			d.count++
		}
	}
	if choice >= len(en) {
		d.Trace = append(d.Trace, -1)
		return nil, true
	}
	if len(en) == 0 {
		return nil, false
	}
	d.Trace = append(d.Trace, int32(en[choice].ID))
	return en[choice], false
}
