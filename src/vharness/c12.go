package vharness

import (
	"encoding/json"
	"fmt"
	"math"
	"reflect"
	"strings"

	"github.com/goptics/varmq"
	"github.com/goptics/varmq/vrt"
	"pgregory.net/rapid"
)

// C12: persistent/distributed jobs keep ID and payload; bad entries are isolated.

type c12Inner struct {
	X int64             `json:"x"`
	Y []string          `json:"y"`
	Z map[string]uint64 `json:"z,omitempty"`
}

type c12Struct struct {
	A int        `json:"a"`
	B string     `json:"b"`
	C []float64  `json:"c"`
	D *c12Inner  `json:"d"`
	E map[string]int `json:"e"`
	F bool
	g int // unexported: not part of the JSON form
}

type seenJob struct {
	ID   string
	Data any
}

// c12Mode: how the items reach the consumer
//
//	0 persistent queue, same worker; 1 persistent priority queue; 2 distributed queue fed by a separate
//	producer handle (no worker); 3 distributed priority queue fed by a separate producer handle
type c12Result struct {
	Accepted []bool
	Seen     []seenJob
	Pending  int
	Submitted uint64
	Report   *vrt.Report
	Errs     []string
}

// c12RoundTrip pushes vals through a recording adapter and a consuming worker of payload type T.
func c12RoundTrip[T any](mode int, ids []string, vals []T) *c12Result {
	res := &c12Result{}
	env := &Env{c: &Case{}, items: map[int]*Item{}, itemQ: map[int]int{}}
	res.Report = vrt.Run(vrt.Options{Chooser: &Dev{}, MaxSteps: 200000}, func() {
		core := newRecCore(env, 0, mode == 1 || mode == 3)
		w := varmq.NewWorker(func(j varmq.Job[T]) {
			res.Seen = append(res.Seen, seenJob{ID: j.ID(), Data: j.Data()})
		}, 2)
		add := func(i int, v T) bool { return false }
		opts := func(i int) []varmq.JobConfigFunc {
			if ids[i] == "" {
				return nil
			}
			return []varmq.JobConfigFunc{varmq.WithJobId(ids[i])}
		}
		switch mode {
		case 0:
			q := w.WithPersistentQueue(recQ{core})
			add = func(i int, v T) bool { return q.Add(v, opts(i)...) }
		case 1:
			q := w.WithPersistentPriorityQueue(recPQ{core})
			add = func(i int, v T) bool { return q.Add(v, i%3, opts(i)...) }
		case 2:
			w.WithDistributedQueue(recQ{core})
			p := varmq.NewDistributedQueue[T](recQ{core})
			add = func(i int, v T) bool { return p.Add(v, opts(i)...) }
		default:
			w.WithDistributedPriorityQueue(recPQ{core})
			p := varmq.NewDistributedPriorityQueue[T](recPQ{core})
			add = func(i int, v T) bool { return p.Add(v, i%3, opts(i)...) }
		}
		vrt.Go("errs", false, func() {
			for {
				err, ok := vrt.Recv2(w.Errs())
				if !ok {
					return
				}
				res.Errs = append(res.Errs, fmt.Sprint(err))
			}
		})
		for i, v := range vals {
			res.Accepted = append(res.Accepted, add(i, v))
		}
		vrt.Settle()
		res.Pending = len(core.pending)
		res.Submitted = w.Metrics().Submitted()
		w.Stop()
	})
	return res
}

// c12Expect computes the harness-side JSON round trip of a value into T.
func c12Expect[T any](v T) (out T, ok bool) {
	b, err := json.Marshal(v)
	if err != nil {
		return out, false
	}
	if err := json.Unmarshal(b, &out); err != nil {
		return out, false
	}
	return out, true
}

func c12ExpectID(id string) string {
	b, _ := json.Marshal(id)
	var s string
	json.Unmarshal(b, &s)
	return s
}

func c12Check[T any](mode int, ids []string, vals []T) (vs []Violation, nontrivial bool) {
	r := c12RoundTrip(mode, ids, vals)
	if len(r.Report.Crashes) > 0 {
		return []Violation{v("C12", "crash", "panic: %s", r.Report.Crashes[0].Value)}, false
	}
	if r.Report.Deadlock {
		return []Violation{v("C12", "deadlock", "blocked: %v", r.Report.Blocked)}, false
	}
	type exp struct {
		id   string
		data T
	}
	var want []exp
	accepted := 0
	for i, val := range vals {
		e, ok := c12Expect(val)
		if ok != r.Accepted[i] {
			vs = append(vs, v("C12", "accept", "item %d (%T %+v): JSON-encodable=%v but Add returned %v", i, val, val, ok, r.Accepted[i]))
			continue
		}
		if ok {
			accepted++
			want = append(want, exp{c12ExpectID(ids[i]), e})
		}
	}
	if len(vs) > 0 {
		return vs, false
	}
	if len(r.Seen) != len(want) {
		vs = append(vs, v("C12", "count", "%d items accepted, consumer saw %d (pending %d, errs %v)", len(want), len(r.Seen), r.Pending, r.Errs))
		return vs, false
	}
	// order is adapter order; match as multisets keyed by position-insensitive comparison
	used := make([]bool, len(r.Seen))
	for _, wv := range want {
		found := false
		for k, s := range r.Seen {
			if used[k] || s.ID != wv.id {
				continue
			}
			if reflect.DeepEqual(s.Data, any(wv.data)) {
				used[k] = true
				found = true
				break
			}
		}
		if !found {
			vs = append(vs, v("C12", "fidelity", "submitted id=%q data=%#v (type %T): no consumed job carries this id with the JSON round trip %#v; consumer saw %+v", wv.id, wv.data, wv.data, wv.data, r.Seen))
			break
		}
	}
	if (mode == 0 || mode == 1) && int(r.Submitted) != accepted {
		vs = append(vs, v("C12", "submitted", "%d items accepted but Submitted=%d (a rejected submission must have no effect)", accepted, r.Submitted))
	}
	for _, id := range ids {
		for _, c := range id {
			if c > 127 || c == '"' || c == '\\' || c < 32 {
				nontrivial = true
			}
		}
	}
	return vs, nontrivial || accepted < len(vals)
}

var c12Strings = []string{"", "a", "héllo", "日本語", "q\"uote", "back\\slash", "line\nbreak", "\u0000nul", " ", "<&>", "emoji 😀", "{\"id\":\"x\"}", "null", "g:prefixed", strings.Repeat("long", 300)}

func genStr(t *rapid.T, label string) string {
	if rapid.IntRange(0, 2).Draw(t, label+"-kind") == 0 {
		return rapid.String().Draw(t, label)
	}
	return rapid.SampledFrom(c12Strings).Draw(t, label)
}

func genInt64(t *rapid.T, label string) int64 {
	if rapid.Bool().Draw(t, label+"-edge") {
		return rapid.SampledFrom([]int64{0, 1, -1, math.MaxInt64, math.MinInt64, 1 << 53, 1<<53 + 1, -(1<<53 + 1), math.MaxInt32 + 1}).Draw(t, label)
	}
	return rapid.Int64().Draw(t, label)
}

func genFloat(t *rapid.T, label string) float64 {
	switch rapid.IntRange(0, 5).Draw(t, label+"-kind") {
	case 0:
		return rapid.SampledFrom([]float64{0, math.Copysign(0, -1), 1.5, -1e308, math.MaxFloat64, math.SmallestNonzeroFloat64, 1e21, 1e-7, 0.1}).Draw(t, label)
	case 1:
		return rapid.SampledFrom([]float64{math.NaN(), math.Inf(1), math.Inf(-1)}).Draw(t, label) // not encodable
	}
	return rapid.Float64().Draw(t, label)
}

func genStruct(t *rapid.T, label string) c12Struct {
	s := c12Struct{A: int(genInt64(t, label+"A")), B: genStr(t, label+"B"), F: rapid.Bool().Draw(t, label+"F"), g: 7}
	n := rapid.IntRange(0, 3).Draw(t, label+"nC")
	if n > 0 {
		for i := 0; i < n; i++ {
			s.C = append(s.C, genFloat(t, label+"C"))
		}
	}
	if rapid.Bool().Draw(t, label+"hasD") {
		s.D = &c12Inner{X: genInt64(t, label+"X"), Y: rapid.SliceOfN(rapid.SampledFrom(c12Strings), 0, 3).Draw(t, label+"Y")}
		if rapid.Bool().Draw(t, label+"hasZ") {
			s.D.Z = map[string]uint64{genStr(t, label+"zk"): rapid.Uint64().Draw(t, label+"zv")}
		}
	}
	if rapid.Bool().Draw(t, label+"hasE") {
		s.E = map[string]int{}
		for i := 0; i < rapid.IntRange(0, 3).Draw(t, label+"nE"); i++ {
			s.E[genStr(t, label+"ek")] = rapid.Int().Draw(t, label+"ev")
		}
	}
	return s
}

func genAny(t *rapid.T, label string, depth int) any {
	k := rapid.IntRange(0, 8).Draw(t, label+"-any")
	if depth > 2 && k > 4 {
		k = k % 5
	}
	switch k {
	case 0:
		return nil
	case 1:
		return genStr(t, label)
	case 2:
		return genFloat(t, label)
	case 3:
		return rapid.Bool().Draw(t, label)
	case 4:
		return genInt64(t, label)
	case 5:
		var xs []any
		for i := 0; i < rapid.IntRange(0, 3).Draw(t, label+"-n"); i++ {
			xs = append(xs, genAny(t, label, depth+1))
		}
		return xs
	case 6:
		m := map[string]any{}
		for i := 0; i < rapid.IntRange(0, 3).Draw(t, label+"-n"); i++ {
			m[genStr(t, label+"-k")] = genAny(t, label, depth+1)
		}
		return m
	case 7:
		return genStruct(t, label)
	default:
		return make(chan int) // not encodable
	}
}

func genIDs(t *rapid.T, n int) []string {
	ids := make([]string, n)
	for i := range ids {
		switch rapid.IntRange(0, 3).Draw(t, "idkind") {
		case 0:
			ids[i] = ""
		default:
			ids[i] = genStr(t, "id")
		}
	}
	return ids
}

func gens[T any](t *rapid.T, n int, g func(*rapid.T, string) T) []T {
	out := make([]T, n)
	for i := range out {
		out[i] = g(t, "v")
	}
	return out
}

// c12Fidelity draws a payload type, values, ids and a queue mode and checks the round trip.
func c12Fidelity(t *rapid.T) (typ string, vs []Violation, nt bool) {
	mode := rapid.IntRange(0, 3).Draw(t, "mode")
	n := rapid.IntRange(1, 5).Draw(t, "n")
	ids := genIDs(t, n)
	switch rapid.IntRange(0, 10).Draw(t, "type") {
	case 0:
		vs, nt = c12Check(mode, ids, gens(t, n, genStr))
		return "string", vs, nt
	case 1:
		vs, nt = c12Check(mode, ids, gens(t, n, func(t *rapid.T, l string) int { return int(genInt64(t, l)) }))
		return "int", vs, nt
	case 2:
		vs, nt = c12Check(mode, ids, gens(t, n, genInt64))
		return "int64", vs, nt
	case 3:
		vs, nt = c12Check(mode, ids, gens(t, n, func(t *rapid.T, l string) uint64 {
			return rapid.OneOf(rapid.Uint64(), rapid.SampledFrom([]uint64{0, math.MaxUint64, 1 << 63, 1<<53 + 1})).Draw(t, l)
		}))
		return "uint64", vs, nt
	case 4:
		vs, nt = c12Check(mode, ids, gens(t, n, genFloat))
		return "float64", vs, nt
	case 5:
		vs, nt = c12Check(mode, ids, gens(t, n, func(t *rapid.T, l string) bool { return rapid.Bool().Draw(t, l) }))
		return "bool", vs, nt
	case 6:
		vs, nt = c12Check(mode, ids, gens(t, n, func(t *rapid.T, l string) []int { return rapid.SliceOfN(rapid.Int(), 0, 4).Draw(t, l) }))
		return "[]int", vs, nt
	case 7:
		vs, nt = c12Check(mode, ids, gens(t, n, func(t *rapid.T, l string) map[string]string {
			if rapid.IntRange(0, 4).Draw(t, l+"nil") == 0 {
				return nil
			}
			m := map[string]string{}
			for i := 0; i < rapid.IntRange(0, 3).Draw(t, l+"n"); i++ {
				m[genStr(t, l+"k")] = genStr(t, l+"v")
			}
			return m
		}))
		return "map[string]string", vs, nt
	case 8:
		vs, nt = c12Check(mode, ids, gens(t, n, genStruct))
		return "struct", vs, nt
	case 9:
		vs, nt = c12Check(mode, ids, gens(t, n, func(t *rapid.T, l string) *c12Struct {
			if rapid.IntRange(0, 4).Draw(t, l+"nil") == 0 {
				return nil
			}
			s := genStruct(t, l)
			return &s
		}))
		return "*struct", vs, nt
	default:
		vs, nt = c12Check(mode, ids, gens(t, n, func(t *rapid.T, l string) any { return genAny(t, l, 0) }))
		return "any", vs, nt
	}
}

// ---- bad entries among valid ones (general executor, concurrency 1)

func genC12Bad(t *rapid.T, th bool) *Case {
	c := &Case{Prop: "C12", Cfg: Config{Kind: "plain", Conc: 1, Queues: []string{pick(t, "qkind", []string{"pers", "dist", "persprio", "distprio"})}, ErrsReader: rapid.Bool().Draw(t, "errsreader")}}
	n := rapid.IntRange(1, 6).Draw(t, "nvalid")
	for i := 0; i < n; i++ {
		c.Cfg.PreItems = append(c.Cfg.PreItems, Item{N: i + 1, ID: pick(t, "id", []string{"", "a", "é", "x y"}), S: pick(t, "s", c12Strings[:8])})
	}
	nb := rapid.IntRange(0, 3).Draw(t, "nbad")
	for i := 0; i < nb; i++ {
		c.Cfg.PreBad = append(c.Cfg.PreBad, BadEnt{Pos: rapid.IntRange(0, n).Draw(t, "pos"), Kind: rapid.IntRange(0, 6).Draw(t, "badkind")})
	}
	// a client keeps submitting behind the pre-loaded entries
	var ops []Op
	for i := 0; i < rapid.IntRange(0, 3).Draw(t, "nadd"); i++ {
		ops = append(ops, Op{Op: "add", It: &Item{N: 100 + i}})
	}
	c.Clients = [][]Op{nil, ops}
	pf := &Profile{}
	c.Sched = genSched(t, pf, th)
	return c
}

func oC12Bad(ix *Index) []Violation {
	var out []Violation
	out = append(out, oDeadlock("C12")(ix)...)
	out = append(out, oCrash("C12")(ix)...)
	out = append(out, oLivelock("C12")(ix)...)
	if !ix.Completed || ix.R.Rep.Deadlock {
		return out
	}
	// every valid pre-loaded entry ran exactly once, in queue order (concurrency 1), with its id and data
	prio := strings.HasSuffix(ix.C.Cfg.Queues[0], "prio")
	last := -1
	for _, it := range ix.C.Cfg.PreItems {
		j := ix.Jobs[it.N]
		if j == nil || len(j.Enters) != 1 {
			n := 0
			if j != nil {
				n = len(j.Enters)
			}
			out = append(out, v("C12", "valid-not-run-once", "valid entry %d behind/among %d bad entries ran %d times", it.N, len(ix.C.Cfg.PreBad), n))
			continue
		}
		if !prio {
			if j.Enters[0] < last {
				out = append(out, v("C12", "reordered", "valid entry %d ran before an entry stored ahead of it", it.N))
			}
			last = j.Enters[0]
		}
		if ev := j.EnterEvs[0]; ev.S != it.ID || ev.D != it.S {
			out = append(out, v("C12", "fidelity", "stored entry %d reached the worker function with id %q data %q, stored were %q %q", it.N, ev.S, ev.D, it.ID, it.S))
		}
	}
	for n, j := range ix.Jobs {
		if n < 0 && len(j.Enters) > 0 {
			out = append(out, v("C12", "bad-entry-executed", "an undecodable stored entry (well-formed prefix, then more bytes) was handed to the worker function as job %d instead of being reported and skipped", n))
		}
	}
	if ix.C.Cfg.ErrsReader && len(ix.C.Cfg.PreBad) > 0 && len(ix.WErrs) == 0 {
		out = append(out, v("C12", "bad-entry-silent", "%d undecodable entries were stored but no error was offered on Errs()", len(ix.C.Cfg.PreBad)))
	}
	if ix.Final != nil && ix.Final.AdPending[0] != 0 {
		out = append(out, v("C12", "blocked", "at rest %d entries are still pending on the adapter", ix.Final.AdPending[0]))
	}
	return out
}

func init() {
	bad := &Spec{Prop: "C12", Oracles: []oracleFn{oC12Bad}, NonTrivial: func(ix *Index) (bool, []string) {
		cl := []string{"bad-entries:" + itoa(len(ix.C.Cfg.PreBad)), "queue:" + ix.C.Cfg.Queues[0]}
		return len(ix.C.Cfg.PreBad) > 0 && len(ix.C.Cfg.PreItems) >= 2, cl
	}}
	spec := &Spec{Prop: "C12"}
	spec.Custom = func(t *rapid.T, th bool, st *Stats) {
		if rapid.IntRange(0, 2).Draw(t, "part") == 0 {
			c := genC12Bad(t, th)
			runOne(t, bad, c, st)
			return
		}
		typ, vs, nt := c12Fidelity(t)
		st.Evaluations++
		st.Classes["type:"+typ]++
		if len(vs) > 0 {
			st.Verdicts["violation"]++
			if st.out != "" {
				writeViolationRaw(st.out, map[string]any{"property": "C12", "part": "fidelity", "type": typ, "violations": vs, "note": "replay with the rapid seed printed in the log; the shrunk inputs are in the witness"})
			}
			t.Fatalf("VIOLATION %s", vs[0])
		}
		st.Verdicts["ok"]++
		if nt {
			st.hset[hash64(typ, st.Evaluations)] = true
			st.sample(map[string]any{"part": "fidelity", "type": typ, "outcome": "ok"})
		}
	}
	register(spec)
	replayCustom["C12"] = func(c *Case, raw []byte) []Violation {
		var m map[string]any
		json.Unmarshal(raw, &m)
		if m["part"] == "fidelity" {
			return nil // fidelity failures are plain values in the witness; regression tests live in c12_regress_test.go
		}
		st := newStats()
		st.out = ""
		r := RunCase(c)
		return evaluate(bad, c, r, st)
	}
}
