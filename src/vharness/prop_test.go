package vharness

import (
	"encoding/json"
	"fmt"
	"os"
	"path/filepath"
	"sort"
	"strconv"
	"strings"
	"testing"

	"pgregory.net/rapid"
)

// Spec of one property's check on the coop engine.
type Spec struct {
	Prop       string
	Gen        func(t *rapid.T, thorough bool) *Case
	Oracles    []oracleFn                                  // the property's own clauses
	Foreign    []oracleFn                                  // other properties' clauses: a hit sets the case aside
	NonTrivial func(ix *Index) (bool, []string)            // rule + classes
	Run        func(c *Case) *Result                       // default RunCase
	Custom     func(t *rapid.T, thorough bool, st *Stats) // fully custom property body (C11, ...)
	Pre        func(t *rapid.T, thorough bool, st *Stats) bool // optional extra part: returns true when it handled this draw
	Enumerate  func(spec *Spec, st *Stats, shard, nshards int, thorough bool, fail func(c *Case, vs []Violation, r *Result)) // exhaustive part, run before the generated part
}

var specs = map[string]*Spec{}

func register(s *Spec) { specs[s.Prop] = s }

// ------------------------------------------------------------ known findings

type Finding struct {
	ID       string   `json:"id"`
	Property string   `json:"property"`
	Status   string   `json:"status"` // open | fixed
	Oracle   string   `json:"oracle"`
	Contains []string `json:"contains"`
	What     string   `json:"what"`
}

var findings []Finding

func loadFindings() {
	p := os.Getenv("VERIF_KNOWN")
	if p == "" {
		return
	}
	b, err := os.ReadFile(p)
	if err != nil {
		return
	}
	var f struct {
		Findings []Finding `json:"findings"`
	}
	if json.Unmarshal(b, &f) == nil {
		findings = f.Findings
	}
}

// matchFinding returns the open finding that explains the violation ("" if none).
func matchFinding(x Violation) *Finding {
	for i := range findings {
		f := &findings[i]
		if f.Status != "open" || f.Oracle != x.Oracle {
			continue
		}
		ok := true
		for _, s := range f.Contains {
			if !strings.Contains(x.Witness, s) {
				ok = false
			}
		}
		if ok && (f.Property == x.Prop || x.Oracle == "crash" || x.Oracle == "deadlock") {
			return f
		}
	}
	return nil
}

// ------------------------------------------------------------ statistics / evidence

type Stats struct {
	Evaluations  int            `json:"evaluations"`
	Steps        int            `json:"steps"`
	Inconclusive int            `json:"inconclusive"`
	Classes      map[string]int `json:"classes"`
	Verdicts     map[string]int `json:"verdicts"`
	SetAside     map[string]int `json:"set_aside"`
	Known        map[string]int `json:"known"`
	Hashes       []string       `json:"hashes"`
	Samples      []any          `json:"samples"`
	Exhaustive   *bool          `json:"exhaustive,omitempty"`
	Enumerated   int            `json:"enumerated,omitempty"`
	Extra        map[string]any `json:"extra,omitempty"`
	hset         map[uint64]bool
	out          string
	last         *Case
	curs         int
}

func newStats() *Stats {
	return &Stats{Classes: map[string]int{}, Verdicts: map[string]int{}, SetAside: map[string]int{}, Known: map[string]int{}, hset: map[uint64]bool{}, out: os.Getenv("VERIF_OUT")}
}

func (s *Stats) nontrivial(h uint64) {
	s.hset[h] = true
}

func (s *Stats) sample(x any) {
	if len(s.Samples) < 3 {
		s.Samples = append(s.Samples, x)
	}
}

func (s *Stats) write() {
	if s.out == "" {
		return
	}
	hs := make([]string, 0, len(s.hset))
	for h := range s.hset {
		hs = append(hs, fmt.Sprintf("%016x", h))
	}
	sort.Strings(hs)
	s.Hashes = hs
	if len(s.Samples) == 0 && s.last != nil {
		s.Samples = append(s.Samples, map[string]any{"case": s.last, "outcome": "last case executed (no non-trivial case was sampled)"})
	}
	b, _ := json.Marshal(s)
	os.WriteFile(filepath.Join(s.out, "summary.json"), b, 0o644)
}

func (s *Stats) cur(c *Case) {
	s.last = c
	s.curs++
	if s.curs%1000 == 0 {
		s.write() // a shard stopped at the wall-clock budget still reports what it covered
	}
	if s.out != "" {
		os.WriteFile(filepath.Join(s.out, "cur.json"), c.JSON(), 0o644)
	}
}

func writeViolation(out string, c *Case, vs []Violation, hist []Ev) {
	if out == "" {
		return
	}
	tail := hist
	if len(tail) > 400 {
		tail = tail[len(tail)-400:]
	}
	m := map[string]any{}
	json.Unmarshal(c.JSON(), &m)
	m["violations"] = vs
	m["history_tail"] = tail
	b, _ := json.MarshalIndent(m, "", " ")
	os.WriteFile(filepath.Join(out, "violation.json"), b, 0o644)
}

func histHash(h []Ev) uint64 {
	parts := make([]any, 0, len(h)*4)
	for _, ev := range h {
		parts = append(parts, ev.K, ev.C, ev.Op, ev.J, ev.OK, ev.E, ev.St)
	}
	return hash64(parts...)
}

type failer interface {
	Fatalf(format string, args ...any)
}

// evaluate applies a spec's oracles to a finished episode. It returns the
// unlisted violations of the spec's own property.
func evaluate(spec *Spec, c *Case, r *Result, st *Stats) []Violation {
	st.Evaluations++
	st.Steps += r.Rep.Steps
	if r.Rep.Unsupported != "" || (r.Rep.StepLimit && !r.Rep.LibOnlyTail) {
		st.Inconclusive++
		st.Verdicts["inconclusive"]++
		return nil
	}
	ix := BuildIndex(r)
	var own []Violation
	for _, o := range spec.Oracles {
		own = append(own, o(ix)...)
	}
	var unlisted []Violation
	for _, x := range own {
		if f := matchFinding(x); f != nil {
			if f.Property == spec.Prop {
				st.Known[f.ID]++
			} else {
				st.SetAside[f.ID]++
			}
			continue
		}
		unlisted = append(unlisted, x)
	}
	if len(unlisted) > 0 {
		st.Verdicts["violation"]++
		return unlisted
	}
	if len(own) > 0 {
		st.Verdicts["known"]++
		st.sample(map[string]any{"case": c, "outcome": "known finding: " + own[0].String()})
		return nil
	}
	for _, o := range spec.Foreign {
		if fv := o(ix); len(fv) > 0 {
			st.SetAside[fv[0].Prop+"/"+fv[0].Oracle]++
			st.Verdicts["set_aside"]++
			return nil
		}
	}
	st.Verdicts["ok"]++
	nt, classes := true, []string(nil)
	if spec.NonTrivial != nil {
		nt, classes = spec.NonTrivial(ix)
	}
	for _, cl := range classes {
		st.Classes[cl]++
	}
	if nt {
		st.nontrivial(histHash(r.Hist))
		st.sample(map[string]any{"case": c, "outcome": fmt.Sprintf("ok: %d events, %d steps, %d switches, classes %v", len(r.Hist), r.Rep.Steps, r.Rep.Switches, classes)})
	}
	return nil
}

func runOne(t failer, spec *Spec, c *Case, st *Stats) {
	st.cur(c)
	run := spec.Run
	if run == nil {
		run = RunCase
	}
	if c.Sched.Strategy == "sweep1" {
		// a race-shaped program under EVERY schedule with at most one deviation from the base schedule
		// (2 alternatives per choice point; programs with more than 200 choice points at a stride)
		try := func(devs [][2]int) (*Result, bool) {
			cc := *c
			cc.Sched = Sched{Strategy: "dev", Devs: devs}
			r := run(&cc)
			if vs := evaluate(spec, &cc, r, st); len(vs) > 0 {
				c.Sched = cc.Sched
				writeViolation(st.out, &cc, vs, r.Hist)
				t.Fatalf("VIOLATION %s", vs[0])
				return r, false
			}
			return r, true
		}
		r0, ok := try(nil)
		if !ok || r0.Dev == nil {
			return
		}
		st.Classes["sweep1-programs"]++
		m := r0.Dev.Multi
		stride := 1
		if m > 200 {
			stride = (m + 199) / 200
		}
		for s := 0; s < m; s += stride {
			for p := 0; p < 2; p++ {
				if _, ok := try([][2]int{{s, p}}); !ok {
					return
				}
			}
		}
		return
	}
	r := run(c)
	if vs := evaluate(spec, c, r, st); len(vs) > 0 {
		writeViolation(st.out, c, vs, r.Hist)
		t.Fatalf("VIOLATION %s", vs[0])
	}
}

func TestProp(t *testing.T) {
	prop := os.Getenv("VERIF_PROP")
	spec := specs[prop]
	if spec == nil {
		t.Skipf("no coop spec for %q", prop)
	}
	loadFindings()
	thorough := os.Getenv("VERIF_TIER") == "thorough"
	st := newStats()
	defer st.write()
	if spec.Enumerate != nil {
		shard, _ := strconv.Atoi(os.Getenv("VERIF_SHARD"))
		nsh, _ := strconv.Atoi(os.Getenv("VERIF_NSHARDS"))
		if nsh < 1 {
			nsh = 1
		}
		spec.Enumerate(spec, st, shard, nsh, thorough, func(c *Case, vs []Violation, r *Result) {
			writeViolation(st.out, c, vs, r.Hist)
			st.write()
			t.Fatalf("VIOLATION %s", vs[0])
		})
	}
	if spec.Custom == nil && spec.Run == nil && os.Getenv("VERIF_NOSWEEP") == "" {
		shard, _ := strconv.Atoi(os.Getenv("VERIF_SHARD"))
		nsh, _ := strconv.Atoi(os.Getenv("VERIF_NSHARDS"))
		if nsh < 1 {
			nsh = 1
		}
		sweepScenarios(spec, st, shard, nsh, thorough, func(c *Case, vs []Violation, r *Result) {
			writeViolation(st.out, c, vs, r.Hist)
			st.write()
			t.Fatalf("VIOLATION %s", vs[0])
		})
	}
	if spec.Custom != nil {
		rapid.Check(t, func(rt *rapid.T) { spec.Custom(rt, thorough, st) })
		return
	}
	rapid.Check(t, func(rt *rapid.T) {
		if spec.Pre != nil && spec.Pre(rt, thorough, st) {
			return
		}
		c := spec.Gen(rt, thorough)
		runOne(rt, spec, c, st)
	})
}

// FuzzProp drives the generated part of a coop check from Go's native, coverage-guided fuzzer
// (thorough tier): the fuzzer's bytes are rapid's random stream, so it mutates configuration, program
// and schedule together and keeps inputs that reach new code of the (instrumented) library.
func FuzzProp(f *testing.F) {
	prop := os.Getenv("VERIF_PROP")
	spec := specs[prop]
	if spec == nil || spec.Gen == nil || spec.Custom != nil {
		f.Skipf("no fuzzable coop spec for %q", prop)
	}
	loadFindings()
	st := newStats()
	if st.out != "" {
		st.out = filepath.Join(st.out, "fuzz")
		os.MkdirAll(st.out, 0o755)
	}
	f.Fuzz(rapid.MakeFuzz(func(rt *rapid.T) {
		if spec.Pre != nil && spec.Pre(rt, true, st) {
			return
		}
		c := spec.Gen(rt, true)
		if c.Sched.Strategy == "sweep1" {
			c.Sched = Sched{Strategy: "base"} // one episode per input
		}
		st.out, st.curs = st.out, 1 // no periodic summaries from fuzz workers
		runOne(rt, spec, c, st)
	}))
}

type replayT struct {
	t      *testing.T
	failed bool
}

func (r *replayT) Fatalf(format string, args ...any) {
	r.failed = true
	r.t.Logf(format, args...)
}

// TestReplay runs stored cases (VERIF_REPLAY = colon separated files) without rapid.
func TestReplay(t *testing.T) {
	files := os.Getenv("VERIF_REPLAY")
	if files == "" {
		t.Skip("no replay files")
	}
	loadFindings()
	out := os.Getenv("VERIF_OUT")
	for i, f := range strings.Split(files, ":") {
		b, err := os.ReadFile(f)
		if err != nil {
			t.Fatalf("replay %s: %v", f, err)
		}
		c, err := ParseCase(b)
		if err != nil {
			t.Fatalf("replay %s: %v", f, err)
		}
		prop := os.Getenv("VERIF_PROP")
		spec := specs[prop]
		if spec == nil {
			t.Fatalf("no spec for %s", prop)
		}
		st := newStats()
		st.out = ""
		run := spec.Run
		if run == nil {
			run = RunCase
		}
		var raw map[string]any
		json.Unmarshal(b, &raw)
		if raw["part"] == "helpers" {
			var hw struct {
				HC *helperCase `json:"helper_case"`
			}
			json.Unmarshal(b, &hw)
			if vs := runHelperCase(hw.HC); len(vs) > 0 {
				t.Logf("replay %s: VIOLATION %s", f, vs[0])
				os.WriteFile(filepath.Join(out, fmt.Sprintf("violation_replay_%d.json", i)), b, 0o644)
				t.Fail()
			}
			continue
		}
		if spec.Custom != nil {
			if replayCustom[prop] == nil {
				t.Fatalf("no custom replay for %s", prop)
			}
			if vs := replayCustom[prop](c, b); len(vs) > 0 {
				t.Logf("replay %s: VIOLATION %s", f, vs[0])
				os.WriteFile(filepath.Join(out, fmt.Sprintf("violation_replay_%d.json", i)), b, 0o644)
				t.Fail()
			}
			continue
		}
		r := run(c)
		if os.Getenv("VERIF_VERBOSE") != "" {
			for p, ev := range r.Hist {
				t.Logf("%4d %s", p, ev)
			}
			for _, l := range r.Rep.Trace {
				t.Logf("T %s", l)
			}
			t.Logf("report: steps=%d deadlock=%v blocked=%v crashes=%d steplimit=%v", r.Rep.Steps, r.Rep.Deadlock, r.Rep.Blocked, len(r.Rep.Crashes), r.Rep.StepLimit)
			for _, cr := range r.Rep.Crashes {
				t.Logf("crash in %s: %s\n%s", cr.G, cr.Value, cr.Stack)
			}
		}
		vs := evaluate(spec, c, r, st)
		for k, n := range st.Known {
			t.Logf("replay %s: known finding %s (%d)", f, k, n)
		}
		if len(vs) > 0 {
			for _, x := range vs {
				t.Logf("replay %s: VIOLATION %s", f, x)
			}
			if out != "" {
				os.WriteFile(filepath.Join(out, fmt.Sprintf("violation_replay_%d.json", i)), b, 0o644)
			}
			t.Fail()
		} else {
			t.Logf("replay %s: ok", f)
		}
	}
}

var replayCustom = map[string]func(c *Case, raw []byte) []Violation{}

func writeViolationRaw(out string, m map[string]any) {
	b, _ := json.MarshalIndent(m, "", " ")
	os.WriteFile(filepath.Join(out, "violation.json"), b, 0o644)
}
