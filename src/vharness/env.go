package vharness

import (
	"runtime"
	"context"
	"encoding/json"
	"errors"
	"fmt"
	"time"

	"github.com/goptics/varmq"
	"github.com/goptics/varmq/vrt"
)

// Env is the state of one running episode.
type Env struct {
	barArrived map[int]int // barrier number -> clients arrived
	barOpen    map[int]bool
	ackParked  int // acknowledgements parked by an AckGate fault
	ackGen     int
	barWaiting int
	c    *Case
	hist []Ev

	w      varmq.Worker // worker 0 (the one lifecycle ops act on)
	cons   []varmq.Worker
	qs     []*qh
	jobs   map[int]*jobH
	groups map[int]*groupH
	items  map[int]*Item // by job number
	itemQ  map[int]int
	open   map[int]bool // gate state of gated jobs
	parked []int        // jobs parked on a closed gate, oldest first
	openAll bool
	inflight int
	ctxCancel context.CancelFunc
	ctxCancelled bool
	idCounter int
	genIDs    []string
	clientsLeft int
	doneFlag  bool
	adCalls   int
	ctrlDone  bool
	errsSeen  []string
	restarts  int
	bindPlainW varmq.IWorkerBinder[Payload]
	bindErrW   varmq.IErrWorkerBinder[Payload]
	bindResW   varmq.IResultWorkerBinder[Payload, int]
	quiescents int
	preAccepted []Item
	preRaw      []adItem
}

func (e *Env) log(ev Ev) int {
	if vrt.Aborting() {
		return -1
	}
	ev.T = vrt.Now()
	e.hist = append(e.hist, ev)
	vrt.NoteEvent()
	return len(e.hist) - 1
}

func jobOfItem(item any) int {
	b, ok := item.([]byte)
	if !ok {
		return -1
	}
	var v struct {
		Data *Payload `json:"data"`
	}
	if json.Unmarshal(b, &v) != nil || v.Data == nil {
		return -1
	}
	return v.Data.N
}

func valFor(n int) int       { return n*7 + 1 }
func errFor(n int) error     { return fmt.Errorf("E%d-harness", n) }
func panicStrFor(n int) string { return fmt.Sprintf("P%d-harness", n) }

var errSentinelBase = errors.New("PE-harness")

func panicErrFor(n int) error { return fmt.Errorf("PE%d-harness: %w", n, errSentinelBase) }

type statuser interface{ Status() string }

// harnessPanic is a panic value that is neither a string nor an error.
type harnessPanic struct {
	Code int
	Msg  string
}

// wf is the worker function body shared by all worker kinds.
func (e *Env) wf(widx int, j varmq.Job[Payload]) (int, error) {
	p := j.Data()
	n := p.N
	st := ""
	if sp, ok := j.(statuser); ok {
		st = sp.Status()
	}
	e.inflight++
	e.log(Ev{K: "enter", C: -1, J: n, Q: -1, G: -1, W: widx, S: j.ID(), St: st, D: p.S})
	it := e.items[n]
	if it != nil && it.Gated && !e.openAll && !e.open[n] {
		e.parked = append(e.parked, n)
		vrt.Block(vrt.KeyOf(e)+uintptr(n+1), "gate", func() bool { return e.openAll || e.open[n] })
		for i, x := range e.parked {
			if x == n {
				e.parked = append(e.parked[:i], e.parked[i+1:]...)
				break
			}
		}
	} else {
		vrt.Point("wf")
	}
	st2 := ""
	if sp, ok := j.(statuser); ok {
		st2 = sp.Status()
	}
	e.inflight--
	if it != nil && it.Out == OutGoexit {
		e.log(Ev{K: "goexit", C: -1, J: n, Q: -1, G: -1, W: widx, St: st2})
		runtime.Goexit()
	}
	e.log(Ev{K: "exit", C: -1, J: n, Q: -1, G: -1, W: widx, St: st2})
	out := OutVal
	if it != nil {
		out = it.Out
	}
	switch out {
	case OutErr:
		return 0, errFor(n)
	case OutPanicStr:
		panic(panicStrFor(n))
	case OutPanicErr:
		panic(panicErrFor(n))
	case OutPanicStruct:
		panic(harnessPanic{Code: n, Msg: panicStrFor(n)})
	case OutPanicNil:
		var pp *Payload
		_ = pp.N // nil dereference
	}
	return valFor(n), nil
}

func (e *Env) releaseGate(n int) {
	e.open[n] = true
	vrt.Wake(vrt.KeyOf(e) + uintptr(n+1))
}

func (e *Env) workerOpts(conc int) []any {
	cfg := e.c.Cfg
	opts := []any{varmq.WithConcurrency(conc)}
	if cfg.Strategy != 0 {
		opts = append(opts, varmq.WithStrategy(varmq.Strategy(cfg.Strategy)))
	}
	if cfg.ExpiryUs > 0 {
		opts = append(opts, varmq.WithIdleWorkerExpiryDuration(time.Duration(cfg.ExpiryUs)*time.Microsecond))
	}
	if cfg.Ratio > 0 {
		opts = append(opts, varmq.WithMinIdleWorkerRatio(uint8(cfg.Ratio)))
	}
	if cfg.IDGen {
		opts = append(opts, varmq.WithJobIdGenerator(func() string {
			e.idCounter++
			id := fmt.Sprintf("gen-%d", e.idCounter)
			e.genIDs = append(e.genIDs, id)
			return id
		}))
	}
	return opts
}

func (e *Env) setup() {
	cfg := e.c.Cfg
	opts := e.workerOpts(cfg.Conc)
	if cfg.Ctx {
		ctx, cancel := context.WithCancel(context.Background())
		e.ctxCancel = cancel
		opts = append(opts, varmq.WithContext(ctx))
	}
	switch cfg.Kind {
	case "plain":
		w := varmq.NewWorker(func(j varmq.Job[Payload]) { e.wf(0, j) }, opts...)
		e.w, e.bindPlainW = w, w
	case "err":
		w := varmq.NewErrWorker(func(j varmq.Job[Payload]) error { _, err := e.wf(0, j); return err }, opts...)
		e.w, e.bindErrW = w, w
	case "res":
		w := varmq.NewResultWorker(func(j varmq.Job[Payload]) (int, error) { return e.wf(0, j) }, opts...)
		e.w, e.bindResW = w, w
	default:
		panic("bad worker kind " + cfg.Kind)
	}
	// adapters for adapter-backed queues are created first so that items can be pre-loaded
	var cores []*recCore
	for i, k := range cfg.Queues {
		var ad *recCore
		switch k {
		case "pers", "dist":
			ad = newRecCore(e, i, false)
		case "persprio", "distprio":
			ad = newRecCore(e, i, true)
		}
		if ad != nil {
			for _, f := range e.c.Faults {
				if ad.faults[f.Method] == nil {
					ad.faults[f.Method] = map[int]bool{}
				}
				ad.faults[f.Method][f.K] = true
			}
		}
		cores = append(cores, ad)
	}
	if len(cfg.PreItems) > 0 && len(cores) > 0 && cores[0] != nil {
		e.preload(cores[0])
	}
	if len(e.preRaw) > 0 && len(cores) > 0 && cores[0] != nil {
		for _, it := range e.preRaw {
			cores[0].seq++
			cores[0].pending = append(cores[0].pending, adItem{val: it.val, prio: it.prio, seq: cores[0].seq})
		}
	}
	for i, k := range cfg.Queues {
		e.qs = append(e.qs, e.bind(k, i, cores[i]))
	}
	for ci, conc := range cfg.Consumers {
		ci := ci
		w := varmq.NewWorker(func(j varmq.Job[Payload]) { e.wf(ci+1, j) }, e.workerOpts(conc)...)
		for i, k := range cfg.Queues {
			if cores[i] != nil && (k == "dist" || k == "distprio") {
				bindPlain(e, w, k, i, cores[i])
			}
		}
		e.cons = append(e.cons, w)
	}
	if cfg.ErrsReader {
		vrt.Go("errs-reader", false, e.errsReader)
	}
	if cfg.StartPaused {
		e.w.PauseAndWait()
	}
}

// preload places items (and bad entries) directly on the adapter, as another process would have.
func (e *Env) preload(ad *recCore) {
	bad := map[int][]BadEnt{}
	for _, b := range e.c.Cfg.PreBad {
		bad[b.Pos] = append(bad[b.Pos], b)
	}
	put := func(v any, prio int) {
		ad.seq++
		ad.pending = append(ad.pending, adItem{val: v, prio: prio, seq: ad.seq})
	}
	putBad := func(bs []BadEnt) {
		for _, b := range bs {
			switch b.Kind {
			case 0:
				put([]byte("\x00\xffnot json"), 0)
			case 1:
				put([]byte(`{"id":"bad","status":"Bogus","data":{"n":-5}}`), 0)
			case 2:
				put([]byte(`{"id":"bad","status":"Queued","data":"a string, not a payload"}`), 0)
			case 3:
				put(12345, 0)
			case 5: // a well-formed entry followed by garbage
				put([]byte(`{"id":"bad","status":"Queued","data":{"n":-7}} trailing garbage`), 0)
			case 6: // two entries glued together
				put([]byte(`{"id":"bad","status":"Queued","data":{"n":-8}}{"id":"bad2","status":"Queued","data":{"n":-9}}`), 0)
			default:
				put([]byte(`{"id":"bad","status":"Queued","data":{"n":`), 0)
			}
		}
	}
	for i, it := range e.c.Cfg.PreItems {
		putBad(bad[i])
		it := it
		e.items[it.N] = &it
		e.itemQ[it.N] = 0
		b, _ := json.Marshal(map[string]any{"id": it.ID, "status": "Queued", "data": Payload{N: it.N, S: it.S}})
		put(b, it.Prio)
	}
	putBad(bad[len(e.c.Cfg.PreItems)])
	if ad.prioMode {
		// keep adapter order: by priority, FIFO within
		sortPending(ad)
	}
}

func sortPending(ad *recCore) {
	p := ad.pending
	for i := 1; i < len(p); i++ {
		for j := i; j > 0 && p[j].prio < p[j-1].prio; j-- {
			p[j], p[j-1] = p[j-1], p[j]
		}
	}
}

func (e *Env) bind(kind string, idx int, core *recCore) *qh {
	switch e.c.Cfg.Kind {
	case "plain":
		return bindPlain(e, e.bindPlainW, kind, idx, core)
	case "err":
		return bindErr(e, e.bindErrW, kind)
	default:
		return bindRes(e, e.bindResW, kind)
	}
}

func (e *Env) errsReader() {
	for {
		ch := e.w.Errs()
		if ch == nil {
			r := e.restarts
			vrt.Block(vrt.KeyOf(&e.restarts), "errs-reader waits for restart", func() bool { return e.restarts != r || e.doneFlag })
			if e.doneFlag {
				return
			}
			continue
		}
		for {
			err, ok := vrt.Recv2(ch)
			if !ok {
				break
			}
			s := "<nil>"
			if err != nil {
				s = err.Error()
			}
			e.log(Ev{K: "werr", C: -1, J: -1, Q: -1, G: -1, E: s})
		}
		if e.doneFlag {
			return
		}
	}
}

// snapshot reads the whole introspection API atomically (no scheduling points).
func (e *Env) snapshot(withJobs bool) *Snap {
	sn := &Snap{}
	ok := vrt.NoSched(func() {
		sn.Status = e.w.Status()
		for _, q := range e.qs {
			sn.QPending = append(sn.QPending, q.npend())
			if q.ad != nil {
				sn.AdPending = append(sn.AdPending, len(q.ad.pending))
				sn.AdUnacked = append(sn.AdUnacked, len(q.ad.unacked))
			} else {
				sn.AdPending = append(sn.AdPending, -1)
				sn.AdUnacked = append(sn.AdUnacked, -1)
			}
		}
		sn.WPending = e.w.NumPending()
		sn.Proc = e.w.NumProcessing()
		sn.Idle = e.w.NumIdleWorkers()
		sn.Conc = e.w.NumConcurrency()
		m := e.w.Metrics()
		sn.Submitted, sn.Completed, sn.Success, sn.Failed = m.Submitted(), m.Completed(), m.Successful(), m.Failed()
		for _, cw := range e.cons {
			cm := cw.Metrics()
			sn.Cons = append(sn.Cons, ConsSnap{Submitted: cm.Submitted(), Completed: cm.Completed(), Status: cw.Status()})
		}
		if withJobs {
			max := -1
			for n := range e.jobs {
				if n > max {
					max = n
				}
			}
			sn.JobSt = make([]string, max+1)
			for n, h := range e.jobs {
				sn.JobSt[n] = h.status()
			}
		}
	})
	sn.OKSnap = ok
	sn.InFlight = e.inflight
	sn.Gates = len(e.parked)
	sn.LiveLib = len(vrt.Live(true))
	sn.Clock = vrt.Now()
	return sn
}

// onQuiescent is the scheduler hook: nothing is enabled and no timer helps.
func (e *Env) onQuiescent() bool {
	e.quiescents++
	if e.quiescents > 10000 {
		return false
	}
	e.log(Ev{K: "q", C: -2, J: -1, Q: -1, G: -1, Sn: e.snapshot(false)})
	if e.barWaiting > 0 {
		// a barrier never adds a dependency: when nothing else can run, whoever waits there goes on
		if e.barOpen == nil {
			e.barOpen = map[int]bool{}
		}
		for k := range e.barArrived {
			e.barOpen[k] = true
		}
		e.log(Ev{K: "env", C: -2, Op: "barrier-opened", J: -1, Q: -1, G: -1})
		vrt.Wake(vrt.KeyOf(e) + 1000003)
		return true
	}
	if e.ackParked > 0 {
		e.ackGen++
		e.log(Ev{K: "env", C: -2, Op: "slow-acks-complete", J: -1, Q: -1, G: -1})
		vrt.Wake(vrt.KeyOf(e) + 2000003)
		return true
	}
	if len(e.parked) > 0 {
		n := e.parked[0]
		e.log(Ev{K: "env", C: -2, Op: "autorelease", J: n, Q: -1, G: -1})
		e.releaseGate(n)
		return true
	}
	return false
}

func errStr(err error) string {
	if err == nil {
		return ""
	}
	return err.Error()
}

// ensureRunning brings worker 0 back to Running (used by the controller's tail and the epilogue).
func (e *Env) ensureRunning(c int) {
	if e.ctxCancelled {
		return
	}
	switch e.w.Status() {
	case "Paused":
		e.call(c, Op{Op: "resume"})
	case "Stopped":
		e.call(c, Op{Op: "restart"})
	}
}

func (e *Env) runClient(c int, ops []Op) {
	for _, op := range ops {
		e.call(c, op)
	}
	if c == 0 {
		if !e.c.Cfg.NoCtrlTail {
			e.ensureRunning(0)
		}
		e.ctrlDone = true
	}
	e.clientsLeft--
	if e.clientsLeft == 0 {
		vrt.Wake(vrt.KeyOf(&e.clientsLeft))
	}
}

// root is the body of the episode's root goroutine.
func (e *Env) root() {
	e.setup()
	e.clientsLeft = len(e.c.Clients)
	for i, ops := range e.c.Clients {
		i, ops := i, ops
		vrt.Go(fmt.Sprintf("client%d", i), false, func() { e.runClient(i, ops) })
	}
	vrt.Block(vrt.KeyOf(&e.clientsLeft), "root waits for clients", func() bool { return e.clientsLeft == 0 })
	e.log(Ev{K: "env", C: -2, Op: "epilogue", J: -1, Q: -1, G: -1})
	e.ensureRunning(-2)
	if e.ackParked > 0 {
		// slow acknowledgements are still outstanding: record the state at rest with them pending
		// (a quiescent point for the oracles), then let them complete
		vrt.Settle()
		e.log(Ev{K: "q", C: -2, J: -1, Q: -1, G: -1, Sn: e.snapshot(false)})
		e.ackGen++
		vrt.Wake(vrt.KeyOf(e) + 2000003)
	}
	e.openAll = true
	for _, n := range append([]int(nil), e.parked...) {
		e.releaseGate(n)
	}
	vrt.Settle()
	e.log(Ev{K: "final", C: -2, J: -1, Q: -1, G: -1, Sn: e.snapshot(true)})
	if e.c.Cfg.FinalStop {
		e.call(-2, Op{Op: "stop"})
		for _, cw := range e.cons {
			cw.Stop()
		}
		e.doneFlag = true
		vrt.Wake(vrt.KeyOf(&e.restarts))
		vrt.Settle()
		sn := e.snapshot(false)
		e.log(Ev{K: "stopped", C: -2, J: -1, Q: -1, G: -1, Sn: sn, S: fmt.Sprint(vrt.Live(true))})
	}
	e.doneFlag = true
}
