package vseq

import (
	"fmt"
	"math"
	"os"
	"sort"
	"strings"
	"testing"

	"github.com/goptics/varmq/internal/queues"
	"pgregory.net/rapid"
)

// ---- C04, queue part: internal/queues against reference models.
// An operation sequence is a []qop, so that failing sequences shrink and replay as plain data.

type qop struct {
	Op   string `json:"op"` // enq enqmany deq deqmany len values purge close
	N    int    `json:"n,omitempty"`
	Prio int    `json:"prio,omitempty"`
}

type mitem struct {
	val  int
	prio int
	seq  int
}

var burstSizes = []int{1, 2, 3, 7, 1023, 1024, 1025, 1535, 1536, 1537, 2559, 2560, 2561, 3000, 4863, 4864, 4865}
// partial drains: the reader ends up somewhere inside a segment, not only at its boundaries
var deqSizes = []int{1, 2, 3, 7, 100, 255, 256, 300, 400, 511, 512, 700, 1023, 1024, 1025, 1300, 1536, 2000, 2560, 3000, 4864}
var prioVals = []int{0, 0, 1, 1, 2, -1, 5, math.MinInt, math.MaxInt, math.MinInt + 1, math.MaxInt - 1}

func genOps(t *rapid.T, prio bool, huge bool) []qop {
	n := rapid.IntRange(1, 40).Draw(t, "nops")
	var ops []qop
	for i := 0; i < n; i++ {
		k := rapid.IntRange(0, 99).Draw(t, "kind")
		switch {
		case k < 30:
			ops = append(ops, qop{Op: "enq", Prio: drawPrio(t, prio)})
		case k < 42:
			sz := rapid.SampledFrom(burstSizes).Draw(t, "burst")
			if huge && rapid.IntRange(0, 59).Draw(t, "huge") == 0 {
				sz = rapid.SampledFrom([]int{102400, 120000, 260000}).Draw(t, "hugeburst")
			}
			ops = append(ops, qop{Op: "enqmany", N: sz, Prio: drawPrio(t, prio)})
		case k < 65:
			ops = append(ops, qop{Op: "deq"})
		case k < 78:
			ops = append(ops, qop{Op: "deqmany", N: rapid.SampledFrom(deqSizes).Draw(t, "deqn")})
		case k < 86:
			ops = append(ops, qop{Op: "len"})
		case k < 92:
			ops = append(ops, qop{Op: "values"})
		case k < 99:
			ops = append(ops, qop{Op: "purge"})
		default:
			ops = append(ops, qop{Op: "close"})
		}
	}
	return ops
}

func drawPrio(t *rapid.T, prio bool) int {
	if !prio {
		return 0
	}
	if rapid.IntRange(0, 3).Draw(t, "anyprio") == 0 {
		return rapid.Int().Draw(t, "prio")
	}
	return rapid.SampledFrom(prioVals).Draw(t, "prio")
}

type sut interface {
	Len() int
	Dequeue() (any, bool)
	Values() []any
	Purge()
	Close() error
}

// runQueueOps applies ops to the real queue and to the model; returns a description of the first disagreement.
func runQueueOps(prio bool, ops []qop) (string, map[string]bool) {
	classes := map[string]bool{}
	var fifo *queues.Queue[int]
	var pq *queues.PriorityQueue[int]
	var q sut
	if prio {
		pq = queues.NewPriorityQueue[int]()
		q = pq
	} else {
		fifo = queues.NewQueue[int]()
		q = fifo
	}
	// Reference model, deliberately simple and independent of the implementation (no heap):
	// FIFO: one list. Priority: one FIFO list per priority value plus the sorted set of values;
	// the next item is the head of the list of the smallest value that has pending items.
	var fifoModel []mitem
	byPrio := map[int][]mitem{}
	var prios []int // sorted distinct priority values that ever occurred
	size := 0
	seq, next := 0, 0
	closed := false
	total := 0
	insert := func(it mitem) {
		size++
		if !prio {
			fifoModel = append(fifoModel, it)
			return
		}
		if _, ok := byPrio[it.prio]; !ok {
			i := sort.SearchInts(prios, it.prio)
			prios = append(prios, 0)
			copy(prios[i+1:], prios[i:])
			prios[i] = it.prio
		}
		byPrio[it.prio] = append(byPrio[it.prio], it)
	}
	// head returns the model's next item and whether another item of the same priority is pending
	head := func() (mitem, bool, func()) {
		if !prio {
			return fifoModel[0], false, func() { fifoModel = fifoModel[1:] }
		}
		for _, p := range prios {
			if l := byPrio[p]; len(l) > 0 {
				return l[0], len(l) > 1, func() { byPrio[p] = byPrio[p][1:] }
			}
		}
		panic("model: head of empty queue")
	}
	all := func() []mitem { // every pending item, in model order
		if !prio {
			return fifoModel
		}
		var out []mitem
		for _, p := range prios {
			out = append(out, byPrio[p]...)
		}
		return out
	}
	enq := func(p int) string {
		next++
		var ok bool
		if prio {
			ok = pq.Enqueue(next, p)
		} else {
			ok = fifo.Enqueue(next)
		}
		if ok == closed {
			return fmt.Sprintf("Enqueue returned %v on a queue with closed=%v", ok, closed)
		}
		if ok {
			seq++
			total++
			insert(mitem{val: next, prio: p, seq: seq})
		}
		return ""
	}
	deq := func() string {
		v, ok := q.Dequeue()
		if size == 0 {
			if ok {
				return fmt.Sprintf("Dequeue on an empty queue returned (%v,true)", v)
			}
			return ""
		}
		want, tie, pop := head()
		if !ok || v.(int) != want.val {
			return fmt.Sprintf("Dequeue returned (%v,%v), the model's next item is %d (prio %d, arrival %d) of %d pending", v, ok, want.val, want.prio, want.seq, size)
		}
		if tie {
			classes["tie-break"] = true
		}
		pop()
		size--
		return ""
	}
	budget := 60000
	if os.Getenv("VERIF_TIER") == "thorough" {
		budget = 300000
	}
	for i, op := range ops {
		msg := ""
		if op.Op == "enqmany" {
			if op.N > budget {
				op.N = budget
			}
			budget -= op.N
		}
		switch op.Op {
		case "enq":
			msg = enq(op.Prio)
		case "enqmany":
			for k := 0; k < op.N && msg == ""; k++ {
				p := op.Prio
				if prio && k%3 == 1 {
					p = op.Prio + 1
					if op.Prio == math.MaxInt {
						p = op.Prio
					}
				}
				msg = enq(p)
			}
			if size > 1024 {
				classes["beyond-first-segment"] = true
			}
			if size > 102400 {
				classes["beyond-max-segment"] = true
			}
		case "deq":
			msg = deq()
		case "deqmany":
			for k := 0; k < op.N && msg == "" && (size > 0 || k == 0); k++ {
				msg = deq()
			}
		case "len":
		case "values":
			vals := q.Values()
			model := all()
			if len(vals) != len(model) {
				msg = fmt.Sprintf("Values() has %d items, model %d", len(vals), len(model))
				break
			}
			if prio {
				got := make([]int, len(vals))
				for k, x := range vals {
					got[k] = x.(int)
				}
				want := make([]int, len(model))
				for k, it := range model {
					want[k] = it.val
				}
				sort.Ints(got)
				sort.Ints(want)
				for k := range got {
					if got[k] != want[k] {
						msg = fmt.Sprintf("Values() is not the pending multiset (first difference %d vs %d)", got[k], want[k])
						break
					}
				}
			} else {
				for k, x := range vals {
					if x.(int) != model[k].val {
						msg = fmt.Sprintf("Values()[%d] = %v, FIFO model has %d", k, x, model[k].val)
						break
					}
				}
			}
		case "purge":
			q.Purge()
			if size > 0 {
				classes["purge-then-reuse"] = true
			}
			fifoModel = nil
			byPrio = map[int][]mitem{}
			prios = nil
			size = 0
		case "close":
			q.Close()
			closed = true
			classes["closed"] = true
		}
		if msg == "" {
			if l := q.Len(); l != size {
				msg = fmt.Sprintf("Len() = %d, model %d", l, size)
			}
		}
		if msg != "" {
			return fmt.Sprintf("step %d (%+v): %s", i, op, msg), classes
		}
	}
	// drain: everything comes out in order
	for size > 0 {
		if msg := deq(); msg != "" {
			return "final drain: " + msg, classes
		}
	}
	if _, ok := q.Dequeue(); ok {
		return "final drain: queue yields more items than were accepted", classes
	}
	if total > 2560 {
		classes["total>2560"] = true
	}
	return "", classes
}

func TestC04Queues(t *testing.T) {
	st := newStats()
	defer st.write()
	thorough := os.Getenv("VERIF_TIER") == "thorough"
	rapid.Check(t, func(rt *rapid.T) {
		prio := rapid.Bool().Draw(rt, "priority")
		ops := genOps(rt, prio, thorough)
		msg, classes := runQueueOps(prio, ops)
		st.Evaluations++
		if st.Evaluations%200 == 0 {
			st.write()
		}
		kind := "fifo"
		if prio {
			kind = "priority"
		}
		st.Classes[kind]++
		for c := range classes {
			st.Classes[c]++
		}
		if msg != "" {
			st.Verdicts["violation"]++
			st.violation(map[string]any{"property": "C04", "part": "queues", "priority": prio, "ops": ops, "violations": []string{msg}})
			rt.Fatalf("VIOLATION C04/queue-model: %s", msg)
		}
		st.Verdicts["ok"]++
		if classes["beyond-first-segment"] || classes["tie-break"] || classes["purge-then-reuse"] {
			st.hset[hash64(prio, fmt.Sprint(ops))] = true
			if len(st.Samples) < 3 {
				st.Samples = append(st.Samples, map[string]any{"priority": prio, "ops": ops, "outcome": "ok", "classes": keys(classes)})
			}
		}
	})
}

func keys(m map[string]bool) []string {
	var out []string
	for k := range m {
		out = append(out, k)
	}
	sort.Strings(out)
	return out
}

// FuzzC04Queues drives the same property from the native fuzzer (thorough tier).
func FuzzC04Queues(f *testing.F) {
	f.Fuzz(rapid.MakeFuzz(func(rt *rapid.T) {
		prio := rapid.Bool().Draw(rt, "priority")
		ops := genOps(rt, prio, false)
		if msg, _ := runQueueOps(prio, ops); msg != "" {
			rt.Fatalf("VIOLATION C04/queue-model: %s", msg)
		}
	}))
}

// TestReplay re-runs stored operation sequences (VERIF_REPLAY).
func TestReplay(t *testing.T) {
	files := os.Getenv("VERIF_REPLAY")
	if files == "" {
		t.Skip("no replay files")
	}
	for i, f := range strings.Split(files, ":") {
		var c struct {
			Part     string `json:"part"`
			Priority bool   `json:"priority"`
			Ops      []qop  `json:"ops"`
		}
		b, err := os.ReadFile(f)
		if err != nil {
			t.Fatal(err)
		}
		if err := jsonUnmarshal(b, &c); err != nil {
			t.Fatal(err)
		}
		if c.Part != "queues" {
			continue
		}
		if msg, _ := runQueueOps(c.Priority, c.Ops); msg != "" {
			t.Logf("replay %s: VIOLATION C04/queue-model: %s", f, msg)
			if out := os.Getenv("VERIF_OUT"); out != "" {
				os.WriteFile(fmt.Sprintf("%s/violation_replay_%d.json", out, i), b, 0o644)
			}
			t.Fail()
		} else {
			t.Logf("replay %s: ok", f)
		}
	}
}
