// Package vseq: rapid state-machine tests and fuzz targets on the uninstrumented library (engine "seq").
package vseq

import (
	"encoding/json"
	"fmt"
	"hash/fnv"
	"os"
	"path/filepath"
	"sort"
)

type Stats struct {
	Evaluations  int            `json:"evaluations"`
	Steps        int            `json:"steps"`
	Inconclusive int            `json:"inconclusive"`
	Classes      map[string]int `json:"classes"`
	Verdicts     map[string]int `json:"verdicts"`
	Hashes       []string       `json:"hashes"`
	Samples      []any          `json:"samples"`
	hset         map[uint64]bool
	out          string
}

func newStats() *Stats {
	return &Stats{Classes: map[string]int{}, Verdicts: map[string]int{}, hset: map[uint64]bool{}, out: os.Getenv("VERIF_OUT")}
}

func hash64(parts ...any) uint64 {
	h := fnv.New64a()
	for _, p := range parts {
		fmt.Fprint(h, p, "|")
	}
	return h.Sum64()
}

func (s *Stats) write() {
	if s.out == "" {
		return
	}
	hs := make([]string, 0, len(s.hset))
	for h := range s.hset {
		hs = append(hs, fmt.Sprintf("%016x", h))
	}
	sort.Strings(hs)
	s.Hashes = hs
	b, _ := json.Marshal(s)
	os.WriteFile(filepath.Join(s.out, "summary.json"), b, 0o644)
}

func (s *Stats) violation(m map[string]any) {
	if s.out == "" {
		return
	}
	b, _ := json.MarshalIndent(m, "", " ")
	os.WriteFile(filepath.Join(s.out, "violation.json"), b, 0o644)
}
