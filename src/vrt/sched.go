// Package vrt is the cooperative ("coop") verification runtime: a token-passing
// scheduler under which exactly one managed goroutine runs at a time and every
// synchronisation operation of the instrumented library is a scheduling point.
// The schedule is chosen by a Chooser that the harness builds from generated
// (rapid-drawn) values, so an episode is a pure function of its Case.
package vrt

import (
	"fmt"
	"os"
	"runtime"
	"sort"
	"strings"
	"sync/atomic"
	"time"
)

type gstate uint8

const (
	gRunnable gstate = iota
	gBlocked
	gDead
)

// G is a managed goroutine.
type G struct {
	ID     int
	Name   string
	Lib    bool // spawned by an instrumented `go` statement of the library
	resume chan struct{}
	done   chan struct{}
	state  gstate
	key    uintptr
	keys   []uintptr
	what   string
	woken  bool
	root   bool
	steps  int
}

func (g *G) String() string {
	st := "runnable"
	switch g.state {
	case gBlocked:
		st = "blocked on " + g.what
	case gDead:
		st = "dead"
	}
	return fmt.Sprintf("g%d[%s] %s", g.ID, g.Name, st)
}

// Blocked reports whether the goroutine is parked.
func (g *G) Blocked() bool { return g.state == gBlocked }

// What describes what a blocked goroutine waits for.
func (g *G) What() string { return g.what }

// Crash records a panic that escaped a managed goroutine: in production the
// process would have died.
type Crash struct {
	G     string
	Value string
	Stack string
}

type timer struct {
	when   int64
	period int64
	fire   func(now int64)
	id     int
	dead   bool
}

// Chooser decides which enabled goroutine runs next. me is nil if the current
// goroutine cannot continue (blocked or exited). clockOK tells whether the
// virtual clock may be advanced instead (advanceClock result).
type Chooser interface {
	Pick(step int, enabled []*G, me *G, clockOK bool) (next *G, advanceClock bool)
	Spawned(g *G)
}

type Options struct {
	Chooser       Chooser
	MaxSteps      int
	OnQuiescent   func() bool // harness hook: returns true if it enabled something
	StopWhen      func() bool // crash cut: abort the episode as soon as it returns true
	SettleRounds  int         // idle periodic-timer rounds before Settle returns (default 3)
	HorizonRounds int         // idle periodic-timer rounds before deadlock is declared (default 40)
	Trace         bool        // record every scheduling point (debugging replays)
}

type Report struct {
	Steps       int
	Switches    int
	Deadlock    bool
	Blocked     []string // description of blocked goroutines at deadlock
	Crashes     []Crash
	StepLimit   bool
	LibOnlyTail bool // step limit hit while only library goroutines ran and no event occurred for the last quarter
	Cut         bool
	Unsupported string   // construct the runtime cannot model (=> inconclusive)
	LiveLib     []string // library goroutines still alive when root returned
	Spawned     int
	Clock       int64
	Trace       []string
}

type Sched struct {
	opt       Options
	cur       *G
	gs        []*G
	nextID    int
	steps     int
	switches  int
	progress  int
	lastPoll  int
	events    int // harness-level events (NoteEvent)
	idleEv    int
	idleRound int
	settler   *G
	settled   bool
	clock     int64
	timers    []*timer
	timerSeq  int
	aborting  bool
	abortWhy  string
	rep       Report
	lastEvStep   int
	lastUserStep int
	enbuf     []*G
	inhibit   int
	curWhat   string
	unbuf     map[uintptr]*[]*offer
}

// S is the active scheduler (nil = pass-through mode).
var S *Sched

type abortSentinel struct{}

// watchdog state (process wide)
var (
	wdSteps   atomic.Int64
	wdActive  atomic.Bool
	wdStarted atomic.Bool
	// SpinExit is the seconds without a scheduling point after which the process exits with code 97.
	SpinSeconds = 12
)

func startWatchdog() {
	if !wdStarted.CompareAndSwap(false, true) {
		return
	}
	go func() {
		last, same := int64(-1), 0
		for {
			time.Sleep(time.Second)
			if !wdActive.Load() {
				same, last = 0, -1
				continue
			}
			cur := wdSteps.Load()
			if cur == last {
				same++
			} else {
				same, last = 0, cur
			}
			if same >= SpinSeconds {
				buf := make([]byte, 1<<20)
				n := runtime.Stack(buf, true)
				fmt.Fprintf(os.Stderr, "VRT-SPIN: no scheduling point reached for %ds at step %d\n%s\n", SpinSeconds, cur, buf[:n])
				os.Exit(97)
			}
		}
	}()
}

// Run executes root as managed goroutine g0 on the calling goroutine.
func Run(opt Options, root func()) (rep *Report) {
	if S != nil {
		panic("vrt: nested Run")
	}
	if opt.MaxSteps == 0 {
		opt.MaxSteps = 2_000_000
	}
	if opt.SettleRounds == 0 {
		opt.SettleRounds = 3
	}
	if opt.HorizonRounds == 0 {
		opt.HorizonRounds = 40
	}
	startWatchdog()
	s := &Sched{opt: opt, lastPoll: -1}
	g0 := &G{ID: 0, Name: "root", resume: make(chan struct{}, 1), root: true}
	s.gs = append(s.gs, g0)
	s.nextID = 1
	s.cur = g0
	S = s
	if opt.Chooser != nil {
		opt.Chooser.Spawned(g0)
	}
	wdSteps.Add(1)
	wdActive.Store(true)
	func() {
		defer func() {
			if r := recover(); r != nil {
				if _, ok := r.(abortSentinel); ok {
					return
				}
				if u, ok := r.(unsupported); ok {
					s.rep.Unsupported = string(u)
					return
				}
				// a genuine panic on the root goroutine (library panic on the caller's goroutine, or harness bug)
				s.rep.Crashes = append(s.rep.Crashes, Crash{G: "root", Value: fmt.Sprint(r), Stack: string(stack())})
			}
		}()
		root()
	}()
	// teardown: record survivors, poison everything, unwind goroutines one at a time
	for _, g := range s.gs {
		if g.state != gDead && !g.root && g.Lib {
			s.rep.LiveLib = append(s.rep.LiveLib, g.String())
		}
	}
	s.aborting = true
	for _, g := range s.gs {
		if g.root || g.state == gDead {
			continue
		}
		select {
		case g.resume <- struct{}{}:
		default:
		}
		select {
		case <-g.done:
		case <-time.After(20 * time.Second):
			buf := make([]byte, 1<<20)
			n := runtime.Stack(buf, true)
			fmt.Fprintf(os.Stderr, "VRT-TEARDOWN: goroutine %s did not unwind\n%s\n", g, buf[:n])
			os.Exit(98)
		}
	}
	wdActive.Store(false)
	s.rep.Steps = s.steps
	s.rep.Switches = s.switches
	s.rep.Spawned = s.nextID
	s.rep.Clock = s.clock
	S = nil
	return &s.rep
}

func stack() []byte {
	buf := make([]byte, 16<<10)
	return buf[:runtime.Stack(buf, false)]
}

type unsupported string

// Unsupported aborts the episode as inconclusive: the runtime cannot model a construct.
func Unsupported(what string) {
	s := S
	if s == nil {
		panic("vrt: unsupported construct outside Run: " + what)
	}
	if s.rep.Unsupported == "" {
		s.rep.Unsupported = what
	}
	s.abort("unsupported: " + what)
	s.dieIfAborting()
}

// Go starts fn as a managed goroutine.
func Go(name string, lib bool, fn func()) { goSpawn(name, lib, fn, true) }

// GoNoPoint is Go without a scheduling point (for use inside timer callbacks).
func GoNoPoint(name string, lib bool, fn func()) { goSpawn(name, lib, fn, false) }

func goSpawn(name string, lib bool, fn func(), pt bool) {
	s := S
	if s == nil {
		go fn()
		return
	}
	if s.aborting {
		return
	}
	if pt {
		s.point("go")
	}
	g := &G{ID: s.nextID, Name: name, Lib: lib, resume: make(chan struct{}, 1), done: make(chan struct{})}
	s.nextID++
	s.gs = append(s.gs, g)
	if s.opt.Chooser != nil {
		s.opt.Chooser.Spawned(g)
	}
	go func() {
		defer close(g.done)
		<-g.resume
		if s.aborting {
			return
		}
		defer func() {
			if s.aborting {
				recover()
				return
			}
			if r := recover(); r != nil {
				switch x := r.(type) {
				case abortSentinel:
				case unsupported:
					if s.rep.Unsupported == "" {
						s.rep.Unsupported = string(x)
					}
					s.abort2("unsupported", false)
				default:
					s.rep.Crashes = append(s.rep.Crashes, Crash{G: g.String(), Value: fmt.Sprint(r), Stack: string(stack())})
					s.abort2("crash: "+fmt.Sprint(r), false)
				}
			}
			if !s.aborting {
				s.exit(g)
			}
		}()
		fn()
	}()
}

// abort ends the episode: the root is woken (it unwinds with abortSentinel).
func (s *Sched) abort(why string) { s.abort2(why, true) }

// abort2: if park is set and the caller is not the root, the caller parks
// until teardown releases it, so that goroutines unwind strictly one at a time.
func (s *Sched) abort2(why string, park bool) {
	if s.aborting {
		return
	}
	s.aborting = true
	s.abortWhy = why
	me := s.cur
	root := s.gs[0]
	if me != root {
		s.cur = root
		root.resume <- struct{}{}
		if park {
			<-me.resume
		}
	}
}

func (s *Sched) enabled() []*G {
	en := s.enbuf[:0]
	for _, g := range s.gs {
		if g.state == gRunnable || (g.state == gBlocked && g.woken) {
			en = append(en, g)
		}
	}
	s.enbuf = en
	return en
}

func (s *Sched) pendingTimer() *timer {
	var best *timer
	for _, t := range s.timers {
		if t.dead {
			continue
		}
		if best == nil || t.when < best.when || (t.when == best.when && t.id < best.id) {
			best = t
		}
	}
	return best
}

func (s *Sched) earliestOneShot() *timer {
	var best *timer
	for _, t := range s.timers {
		if t.dead || t.period > 0 {
			continue
		}
		if best == nil || t.when < best.when || (t.when == best.when && t.id < best.id) {
			best = t
		}
	}
	return best
}

func (s *Sched) fireNextTimer() (periodic bool) {
	t := s.pendingTimer()
	if t == nil {
		return false
	}
	if t.when > s.clock {
		s.clock = t.when
	}
	if t.period > 0 {
		t.when += t.period
		periodic = true
	} else {
		t.dead = true
	}
	t.fire(s.clock)
	if len(s.timers) > 16 {
		live := s.timers[:0]
		for _, x := range s.timers {
			if !x.dead {
				live = append(live, x)
			}
		}
		s.timers = live
	}
	return periodic
}

// point is a scheduling point: the current goroutine may be preempted here.
func (s *Sched) point(what string) {
	if s.aborting {
		s.dieIfAborting()
		return
	}
	if s.inhibit > 0 {
		return
	}
	me := s.cur
	if s.opt.Trace && len(s.rep.Trace) < 20000 {
		s.rep.Trace = append(s.rep.Trace, fmt.Sprintf("%d g%d[%s] %s %s", s.steps, me.ID, me.Name, what, caller()))
	}
	s.steps++
	me.steps++
	if !me.Lib {
		s.lastUserStep = s.steps
	}
	wdSteps.Add(1)
	if s.steps > s.opt.MaxSteps {
		s.rep.StepLimit = true
		tail := s.opt.MaxSteps / 4
		if s.steps-s.lastEvStep > tail && s.steps-s.lastUserStep > tail {
			s.rep.LibOnlyTail = true
		}
		s.abort("step limit")
		s.dieIfAborting()
		return
	}
	if s.opt.StopWhen != nil && s.opt.StopWhen() {
		s.rep.Cut = true
		s.abort("cut")
		s.dieIfAborting()
		return
	}
	if s.opt.Chooser == nil {
		return
	}
	en := s.enabled()
	s.curWhat = what
	next, adv := s.opt.Chooser.Pick(s.steps, en, me, s.pendingTimer() != nil)
	if adv {
		s.fireNextTimer()
		return
	}
	if next == nil || next == me {
		return
	}
	s.switchTo(me, next)
}

func (s *Sched) switchTo(me, next *G) {
	s.switches++
	s.cur = next
	next.resume <- struct{}{}
	<-me.resume
	s.dieIfAborting()
}

func (s *Sched) dieIfAborting() {
	if s.aborting {
		panic(abortSentinel{})
	}
}

// reschedule is called when the current goroutine cannot continue (blocked).
func (s *Sched) reschedule(me *G) {
	next := s.pickOther()
	if next == me {
		return
	}
	if next != nil {
		s.switchTo(me, next)
		return
	}
	s.deadlock(true)
	s.dieIfAborting()
}

// pickOther finds the next goroutine when the current one is blocked or dead;
// it handles clock advance, quiescence polling, Settle and the harness hook.
// Returns nil on deadlock.
func (s *Sched) pickOther() *G {
	for {
		en := s.enabled()
		clockOK := s.pendingTimer() != nil
		if len(en) > 0 {
			if s.opt.Chooser == nil {
				return en[0]
			}
			next, adv := s.opt.Chooser.Pick(s.steps, en, nil, clockOK)
			if adv && clockOK {
				s.fireNextTimer()
				continue
			}
			if next == nil {
				next = en[0]
			}
			return next
		}
		// nothing enabled. Let every blocked goroutine retry once if anything
		// changed since the last poll (covers events not tracked by Wake).
		if s.lastPoll != s.progress {
			s.lastPoll = s.progress
			any := false
			for _, g := range s.gs {
				if g.state == gBlocked {
					g.woken = true
					any = true
				}
			}
			if any {
				continue
			}
		}
		// timers: one-shot timers always fire; periodic ones fire for a
		// bounded number of rounds without any harness-level event.
		if s.events != s.idleEv {
			s.idleEv = s.events
			s.idleRound = 0
		}
		limit := s.opt.HorizonRounds
		if s.settler != nil {
			limit = s.opt.SettleRounds
		}
		if clockOK {
			t := s.pendingTimer()
			if t.period == 0 {
				s.fireNextTimer()
				continue
			}
			if s.idleRound < limit {
				s.idleRound++
				s.fireNextTimer()
				continue
			}
			// the periodic timers have ticked idly for a whole horizon: skip
			// ahead to the earliest one-shot timer (a sleeping client), if any
			if one := s.earliestOneShot(); one != nil {
				for _, pt := range s.timers {
					if !pt.dead && pt.period > 0 && pt.when < one.when {
						k := (one.when-pt.when)/pt.period + 1
						pt.when += k * pt.period
					}
				}
				s.idleRound = 0
				s.fireNextTimer()
				continue
			}
		}
		if s.settler != nil {
			g := s.settler
			s.settler = nil
			s.settled = true
			g.woken = true
			s.idleRound = 0
			continue
		}
		if s.opt.OnQuiescent != nil && s.opt.OnQuiescent() {
			s.progress++
			s.idleRound = 0
			continue
		}
		return nil
	}
}

func (s *Sched) deadlock(park bool) {
	if s.aborting {
		return
	}
	s.rep.Deadlock = true
	for _, g := range s.gs {
		if g.state == gBlocked {
			s.rep.Blocked = append(s.rep.Blocked, g.String())
		}
	}
	sort.Strings(s.rep.Blocked)
	s.abort2("deadlock", park)
}

func (s *Sched) exit(g *G) {
	g.state = gDead
	next := s.pickOther()
	if next == nil {
		s.deadlock(false)
		return
	}
	s.switches++
	s.cur = next
	next.resume <- struct{}{}
}

// Block blocks the current goroutine until try succeeds. key identifies the
// object whose state changes may make try succeed.
func Block(key uintptr, what string, try func() bool) { block(key, what, try, true) }

func block(key uintptr, what string, try func() bool, pt bool) {
	s := S
	if s == nil {
		panic("vrt.Block outside Run")
	}
	if s.aborting {
		s.dieIfAborting()
	}
	me := s.cur
	if s.inhibit > 0 {
		if try() {
			return
		}
		panic(wouldBlock{})
	}
	for {
		if pt {
			s.point(what)
		}
		if try() {
			s.progress++
			return
		}
		me.state = gBlocked
		me.key = key
		me.what = what
		me.woken = false
		s.reschedule(me)
		me.state = gRunnable
		me.woken = false
	}
}

// Wake marks goroutines blocked on key as enabled.
func Wake(key uintptr) {
	s := S
	if s == nil {
		return
	}
	s.progress++
	for _, g := range s.gs {
		if g.state != gBlocked {
			continue
		}
		if g.key == key && g.keys == nil {
			g.woken = true
			continue
		}
		for _, k := range g.keys {
			if k == key {
				g.woken = true
			}
		}
	}
}

// WakeAll wakes every blocked goroutine (used after events the runtime does not track, e.g. context cancellation).
func WakeAll() {
	s := S
	if s == nil {
		return
	}
	s.progress++
	for _, g := range s.gs {
		if g.state == gBlocked {
			g.woken = true
		}
	}
}

// Cancel calls a context.CancelFunc and wakes everybody (inserted by the instrumenter).
func Cancel(f func()) {
	if S != nil && !S.aborting {
		S.point("cancel")
	}
	f()
	WakeAll()
}

// Point is a plain scheduling point.
func Point(what string) {
	if s := S; s != nil {
		s.point(what)
	}
}

// NoteEvent tells the runtime that a harness-level (history) event happened.
func NoteEvent() {
	if s := S; s != nil {
		s.events++
		s.lastEvStep = s.steps
	}
}

// Active reports whether a coop scheduler is running and not tearing down.
func Active() bool { s := S; return s != nil && !s.aborting }

// Aborting reports teardown mode: shims turn into no-ops.
func Aborting() bool { s := S; return s != nil && s.aborting }

// Now returns the virtual clock in ns.
func Now() int64 {
	if s := S; s != nil {
		return s.clock
	}
	return 0
}

// AddTimer registers a timer; returns a cancel func.
func AddTimer(after, period int64, fire func(now int64)) (cancel func()) {
	s := S
	if after < 0 {
		after = 0
	}
	t := &timer{when: s.clock + after, period: period, fire: fire, id: s.timerSeq}
	s.timerSeq++
	s.timers = append(s.timers, t)
	return func() { t.dead = true }
}

// Cur returns the running goroutine.
func Cur() *G {
	if s := S; s != nil {
		return s.cur
	}
	return nil
}

// Steps returns the number of scheduling points so far.
func Steps() int {
	if s := S; s != nil {
		return s.steps
	}
	return 0
}

// Live lists the goroutines that are not dead ("lib" only if libOnly).
func Live(libOnly bool) []string {
	s := S
	if s == nil {
		return nil
	}
	var out []string
	for _, g := range s.gs {
		if g.state != gDead && !g.root && (!libOnly || g.Lib) {
			out = append(out, g.String())
		}
	}
	return out
}

// BlockedUsers lists non-library goroutines that are blocked right now.
func BlockedUsers() []*G {
	s := S
	if s == nil {
		return nil
	}
	var out []*G
	for _, g := range s.gs {
		if g.state == gBlocked && !g.Lib && !g.woken {
			out = append(out, g)
		}
	}
	return out
}

func Describe() string {
	s := S
	if s == nil {
		return ""
	}
	var b strings.Builder
	for _, g := range s.gs {
		if g.state != gDead {
			fmt.Fprintf(&b, "%s\n", g)
		}
	}
	return b.String()
}

// Settle parks the caller until every other goroutine is blocked or dead and
// no timer can change that (periodic timers: SettleRounds idle rounds).
func Settle() {
	s := S
	if s == nil || s.aborting {
		return
	}
	me := s.cur
	s.settled = false
	s.settler = me
	s.idleRound = 0
	s.point("settle")
	block(KeyOf(s), "settle", func() bool {
		if s.settled && s.settler == nil {
			s.settled = false
			return true
		}
		s.settler = me
		return false
	}, false)
}

type wouldBlock struct{}

// NoSched runs f atomically: scheduling points inside f are ignored. If f
// would have to block, it is abandoned and NoSched returns false.
func NoSched(f func()) (ok bool) {
	s := S
	if s == nil {
		f()
		return true
	}
	s.inhibit++
	defer func() {
		s.inhibit--
		if r := recover(); r != nil {
			if _, nb := r.(wouldBlock); nb {
				ok = false
				return
			}
			panic(r)
		}
	}()
	f()
	return true
}

func caller() string {
	pcs := make([]uintptr, 12)
	n := runtime.Callers(3, pcs)
	fr := runtime.CallersFrames(pcs[:n])
	for {
		f, more := fr.Next()
		if !strings.Contains(f.File, "/vrt/") && f.File != "" {
			parts := strings.Split(f.File, "/")
			return fmt.Sprintf("%s:%d", parts[len(parts)-1], f.Line)
		}
		if !more {
			return ""
		}
	}
}

// CurWhat names the operation at the current scheduling point (for label-aware choosers).
func CurWhat() string {
	if s := S; s != nil {
		return s.curWhat
	}
	return ""
}
