// Package vtime mirrors the parts of package time that can block or read the
// clock, on the runtime's virtual clock. Everything else of package time is
// re-exported as aliases so that library code keeps compiling.
package vtime

import (
	"time"

	"github.com/goptics/varmq/vrt"
)

type (
	Duration   = time.Duration
	Time       = time.Time
	Month      = time.Month
	Weekday    = time.Weekday
	Location   = time.Location
	ParseError = time.ParseError
)

const (
	Nanosecond  = time.Nanosecond
	Microsecond = time.Microsecond
	Millisecond = time.Millisecond
	Second      = time.Second
	Minute      = time.Minute
	Hour        = time.Hour

	RFC3339     = time.RFC3339
	RFC3339Nano = time.RFC3339Nano
	RFC1123     = time.RFC1123
	Kitchen     = time.Kitchen
	DateTime    = time.DateTime
)

var (
	UTC   = time.UTC
	Local = time.Local
)

func Date(y int, m Month, d, h, mi, s, ns int, loc *Location) Time {
	return time.Date(y, m, d, h, mi, s, ns, loc)
}
func Unix(s, ns int64) Time                  { return time.Unix(s, ns) }
func UnixMilli(ms int64) Time                { return time.UnixMilli(ms) }
func ParseDuration(s string) (Duration, error) { return time.ParseDuration(s) }
func Parse(l, v string) (Time, error)        { return time.Parse(l, v) }

var base = time.Date(2030, 1, 1, 0, 0, 0, 0, time.UTC)

func Now() Time {
	if vrt.S == nil {
		return time.Now()
	}
	vrt.Point("time.Now")
	return base.Add(Duration(vrt.Now()))
}
func Since(t Time) Duration { return Now().Sub(t) }
func Until(t Time) Duration { return t.Sub(Now()) }

func mkFire(c chan Time) func(int64) {
	return func(now int64) {
		select {
		case c <- base.Add(Duration(now)):
			vrt.WokeS((chan<- Time)(c))
		default:
		}
	}
}

type Ticker struct {
	C      <-chan Time
	c      chan Time
	cancel func()
	real   *time.Ticker
}

func NewTicker(d Duration) *Ticker {
	if d <= 0 {
		panic("non-positive interval for NewTicker")
	}
	if !vrt.Active() {
		rt := time.NewTicker(d)
		return &Ticker{C: rt.C, real: rt}
	}
	vrt.Point("time.NewTicker")
	c := make(chan Time, 1)
	t := &Ticker{C: c, c: c}
	t.cancel = vrt.AddTimer(int64(d), int64(d), mkFire(c))
	return t
}
func (t *Ticker) Stop() {
	if t.real != nil {
		t.real.Stop()
		return
	}
	if vrt.Aborting() {
		return
	}
	vrt.Point("Ticker.Stop")
	t.cancel()
}
func (t *Ticker) Reset(d Duration) {
	if t.real != nil {
		t.real.Reset(d)
		return
	}
	if vrt.Aborting() {
		return
	}
	vrt.Point("Ticker.Reset")
	t.cancel()
	t.cancel = vrt.AddTimer(int64(d), int64(d), mkFire(t.c))
}
func Tick(d Duration) <-chan Time {
	if d <= 0 {
		return nil
	}
	return NewTicker(d).C
}

type Timer struct {
	C      <-chan Time
	c      chan Time
	cancel func()
	fired  bool
	f      func()
	real   *time.Timer
}

func NewTimer(d Duration) *Timer {
	if !vrt.Active() {
		rt := time.NewTimer(d)
		return &Timer{C: rt.C, real: rt}
	}
	vrt.Point("time.NewTimer")
	c := make(chan Time, 1)
	t := &Timer{C: c, c: c}
	t.arm(d)
	return t
}
func (t *Timer) arm(d Duration) {
	t.fired = false
	fire := mkFire(t.c)
	t.cancel = vrt.AddTimer(int64(d), 0, func(now int64) {
		t.fired = true
		if t.f != nil {
			f := t.f
			vrt.GoNoPoint("time.AfterFunc", true, f)
			return
		}
		fire(now)
	})
}
func AfterFunc(d Duration, f func()) *Timer {
	if !vrt.Active() {
		return &Timer{real: time.AfterFunc(d, f)}
	}
	vrt.Point("time.AfterFunc")
	t := &Timer{f: f}
	t.arm(d)
	return t
}
func (t *Timer) Stop() bool {
	if t.real != nil {
		return t.real.Stop()
	}
	if vrt.Aborting() {
		return false
	}
	vrt.Point("Timer.Stop")
	was := !t.fired
	t.cancel()
	t.fired = true
	return was
}
func (t *Timer) Reset(d Duration) bool {
	if t.real != nil {
		return t.real.Reset(d)
	}
	if vrt.Aborting() {
		return false
	}
	vrt.Point("Timer.Reset")
	was := !t.fired
	t.cancel()
	t.arm(d)
	return was
}

func Sleep(d Duration) {
	if !vrt.Active() {
		if vrt.Aborting() {
			return
		}
		time.Sleep(d)
		return
	}
	fired := false
	key := vrt.KeyOf(&fired)
	vrt.AddTimer(int64(d), 0, func(int64) { fired = true; vrt.Wake(key) })
	vrt.Block(key, "time.Sleep", func() bool { return fired })
}

func After(d Duration) <-chan Time {
	if !vrt.Active() {
		return time.After(d)
	}
	return NewTimer(d).C
}
