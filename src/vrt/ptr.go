package vrt

import "reflect"

func ptrOf(p any) uintptr { return reflect.ValueOf(p).Pointer() }

// KeyOf returns the identity key of a pointer or channel.
func KeyOf(p any) uintptr { return ptrOf(p) }
