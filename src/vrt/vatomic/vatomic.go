// Package vatomic mirrors sync/atomic; every operation is a scheduling point.
package vatomic

import (
	"sync/atomic"
	"unsafe"

	"github.com/goptics/varmq/vrt"
)

type Uint32 struct{ v atomic.Uint32 }

func (x *Uint32) Load() uint32         { vrt.Point("atomic.Load"); return x.v.Load() }
func (x *Uint32) Store(v uint32)       { vrt.Point("atomic.Store"); x.v.Store(v) }
func (x *Uint32) Add(d uint32) uint32  { vrt.Point("atomic.Add"); return x.v.Add(d) }
func (x *Uint32) Swap(v uint32) uint32 { vrt.Point("atomic.Swap"); return x.v.Swap(v) }
func (x *Uint32) And(m uint32) uint32  { vrt.Point("atomic.And"); return x.v.And(m) }
func (x *Uint32) Or(m uint32) uint32   { vrt.Point("atomic.Or"); return x.v.Or(m) }
func (x *Uint32) CompareAndSwap(o, n uint32) bool {
	vrt.Point("atomic.CAS")
	return x.v.CompareAndSwap(o, n)
}

type Uint64 struct{ v atomic.Uint64 }

func (x *Uint64) Load() uint64         { vrt.Point("atomic.Load"); return x.v.Load() }
func (x *Uint64) Store(v uint64)       { vrt.Point("atomic.Store"); x.v.Store(v) }
func (x *Uint64) Add(d uint64) uint64  { vrt.Point("atomic.Add"); return x.v.Add(d) }
func (x *Uint64) Swap(v uint64) uint64 { vrt.Point("atomic.Swap"); return x.v.Swap(v) }
func (x *Uint64) And(m uint64) uint64  { vrt.Point("atomic.And"); return x.v.And(m) }
func (x *Uint64) Or(m uint64) uint64   { vrt.Point("atomic.Or"); return x.v.Or(m) }
func (x *Uint64) CompareAndSwap(o, n uint64) bool {
	vrt.Point("atomic.CAS")
	return x.v.CompareAndSwap(o, n)
}

type Uintptr struct{ v atomic.Uintptr }

func (x *Uintptr) Load() uintptr          { vrt.Point("atomic.Load"); return x.v.Load() }
func (x *Uintptr) Store(v uintptr)        { vrt.Point("atomic.Store"); x.v.Store(v) }
func (x *Uintptr) Add(d uintptr) uintptr  { vrt.Point("atomic.Add"); return x.v.Add(d) }
func (x *Uintptr) Swap(v uintptr) uintptr { vrt.Point("atomic.Swap"); return x.v.Swap(v) }
func (x *Uintptr) CompareAndSwap(o, n uintptr) bool {
	vrt.Point("atomic.CAS")
	return x.v.CompareAndSwap(o, n)
}

type Int32 struct{ v atomic.Int32 }

func (x *Int32) Load() int32        { vrt.Point("atomic.Load"); return x.v.Load() }
func (x *Int32) Store(v int32)      { vrt.Point("atomic.Store"); x.v.Store(v) }
func (x *Int32) Add(d int32) int32  { vrt.Point("atomic.Add"); return x.v.Add(d) }
func (x *Int32) Swap(v int32) int32 { vrt.Point("atomic.Swap"); return x.v.Swap(v) }
func (x *Int32) And(m int32) int32  { vrt.Point("atomic.And"); return x.v.And(m) }
func (x *Int32) Or(m int32) int32   { vrt.Point("atomic.Or"); return x.v.Or(m) }
func (x *Int32) CompareAndSwap(o, n int32) bool {
	vrt.Point("atomic.CAS")
	return x.v.CompareAndSwap(o, n)
}

type Int64 struct{ v atomic.Int64 }

func (x *Int64) Load() int64        { vrt.Point("atomic.Load"); return x.v.Load() }
func (x *Int64) Store(v int64)      { vrt.Point("atomic.Store"); x.v.Store(v) }
func (x *Int64) Add(d int64) int64  { vrt.Point("atomic.Add"); return x.v.Add(d) }
func (x *Int64) Swap(v int64) int64 { vrt.Point("atomic.Swap"); return x.v.Swap(v) }
func (x *Int64) And(m int64) int64  { vrt.Point("atomic.And"); return x.v.And(m) }
func (x *Int64) Or(m int64) int64   { vrt.Point("atomic.Or"); return x.v.Or(m) }
func (x *Int64) CompareAndSwap(o, n int64) bool {
	vrt.Point("atomic.CAS")
	return x.v.CompareAndSwap(o, n)
}

type Bool struct{ v atomic.Bool }

func (x *Bool) Load() bool       { vrt.Point("atomic.Load"); return x.v.Load() }
func (x *Bool) Store(v bool)     { vrt.Point("atomic.Store"); x.v.Store(v) }
func (x *Bool) Swap(v bool) bool { vrt.Point("atomic.Swap"); return x.v.Swap(v) }
func (x *Bool) CompareAndSwap(o, n bool) bool {
	vrt.Point("atomic.CAS")
	return x.v.CompareAndSwap(o, n)
}

type Value struct{ v atomic.Value }

func (x *Value) Load() any        { vrt.Point("atomic.Load"); return x.v.Load() }
func (x *Value) Store(v any)      { vrt.Point("atomic.Store"); x.v.Store(v) }
func (x *Value) Swap(v any) any   { vrt.Point("atomic.Swap"); return x.v.Swap(v) }
func (x *Value) CompareAndSwap(o, n any) bool {
	vrt.Point("atomic.CAS")
	return x.v.CompareAndSwap(o, n)
}

type Pointer[T any] struct{ v atomic.Pointer[T] }

func (x *Pointer[T]) Load() *T       { vrt.Point("atomic.Load"); return x.v.Load() }
func (x *Pointer[T]) Store(v *T)     { vrt.Point("atomic.Store"); x.v.Store(v) }
func (x *Pointer[T]) Swap(v *T) *T   { vrt.Point("atomic.Swap"); return x.v.Swap(v) }
func (x *Pointer[T]) CompareAndSwap(o, n *T) bool {
	vrt.Point("atomic.CAS")
	return x.v.CompareAndSwap(o, n)
}

// function-style API
func AddInt32(p *int32, d int32) int32       { vrt.Point("atomic.Add"); return atomic.AddInt32(p, d) }
func AddInt64(p *int64, d int64) int64       { vrt.Point("atomic.Add"); return atomic.AddInt64(p, d) }
func AddUint32(p *uint32, d uint32) uint32   { vrt.Point("atomic.Add"); return atomic.AddUint32(p, d) }
func AddUint64(p *uint64, d uint64) uint64   { vrt.Point("atomic.Add"); return atomic.AddUint64(p, d) }
func AddUintptr(p *uintptr, d uintptr) uintptr {
	vrt.Point("atomic.Add")
	return atomic.AddUintptr(p, d)
}
func LoadInt32(p *int32) int32       { vrt.Point("atomic.Load"); return atomic.LoadInt32(p) }
func LoadInt64(p *int64) int64       { vrt.Point("atomic.Load"); return atomic.LoadInt64(p) }
func LoadUint32(p *uint32) uint32    { vrt.Point("atomic.Load"); return atomic.LoadUint32(p) }
func LoadUint64(p *uint64) uint64    { vrt.Point("atomic.Load"); return atomic.LoadUint64(p) }
func LoadUintptr(p *uintptr) uintptr { vrt.Point("atomic.Load"); return atomic.LoadUintptr(p) }
func LoadPointer(p *unsafe.Pointer) unsafe.Pointer {
	vrt.Point("atomic.Load")
	return atomic.LoadPointer(p)
}
func StoreInt32(p *int32, v int32)       { vrt.Point("atomic.Store"); atomic.StoreInt32(p, v) }
func StoreInt64(p *int64, v int64)       { vrt.Point("atomic.Store"); atomic.StoreInt64(p, v) }
func StoreUint32(p *uint32, v uint32)    { vrt.Point("atomic.Store"); atomic.StoreUint32(p, v) }
func StoreUint64(p *uint64, v uint64)    { vrt.Point("atomic.Store"); atomic.StoreUint64(p, v) }
func StoreUintptr(p *uintptr, v uintptr) { vrt.Point("atomic.Store"); atomic.StoreUintptr(p, v) }
func StorePointer(p *unsafe.Pointer, v unsafe.Pointer) {
	vrt.Point("atomic.Store")
	atomic.StorePointer(p, v)
}
func SwapInt32(p *int32, v int32) int32     { vrt.Point("atomic.Swap"); return atomic.SwapInt32(p, v) }
func SwapInt64(p *int64, v int64) int64     { vrt.Point("atomic.Swap"); return atomic.SwapInt64(p, v) }
func SwapUint32(p *uint32, v uint32) uint32 { vrt.Point("atomic.Swap"); return atomic.SwapUint32(p, v) }
func SwapUint64(p *uint64, v uint64) uint64 { vrt.Point("atomic.Swap"); return atomic.SwapUint64(p, v) }
func CompareAndSwapInt32(p *int32, o, n int32) bool {
	vrt.Point("atomic.CAS")
	return atomic.CompareAndSwapInt32(p, o, n)
}
func CompareAndSwapInt64(p *int64, o, n int64) bool {
	vrt.Point("atomic.CAS")
	return atomic.CompareAndSwapInt64(p, o, n)
}
func CompareAndSwapUint32(p *uint32, o, n uint32) bool {
	vrt.Point("atomic.CAS")
	return atomic.CompareAndSwapUint32(p, o, n)
}
func CompareAndSwapUint64(p *uint64, o, n uint64) bool {
	vrt.Point("atomic.CAS")
	return atomic.CompareAndSwapUint64(p, o, n)
}
func CompareAndSwapPointer(p *unsafe.Pointer, o, n unsafe.Pointer) bool {
	vrt.Point("atomic.CAS")
	return atomic.CompareAndSwapPointer(p, o, n)
}
