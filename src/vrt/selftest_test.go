package vrt

import "testing"

type rr struct{ n uint64 }

func (r *rr) Spawned(*G) {}
func (r *rr) Pick(step int, en []*G, me *G, clockOK bool) (*G, bool) {
	r.n = r.n*6364136223846793005 + 1442695040888963407
	if len(en) == 0 {
		return nil, false
	}
	return en[(r.n>>33)%uint64(len(en))], false
}

// unbuffered rendezvous: every value sent is received exactly once, senders block until taken, close ends receivers
func TestUnbufferedEmulation(t *testing.T) {
	for seed := uint64(1); seed < 300; seed++ {
		ch := make(chan int)
		sum, recvd, sent := 0, 0, 0
		rep := Run(Options{Chooser: &rr{n: seed}}, func() {
			for p := 0; p < 3; p++ {
				p := p
				Go("prod", false, func() {
					for i := 1; i <= 4; i++ {
						Send(ch, p*10+i)
						sent++
					}
				})
			}
			for c := 0; c < 2; c++ {
				Go("cons", false, func() {
					for {
						v, ok := Recv2(ch)
						if !ok {
							return
						}
						sum += v
						recvd++
					}
				})
			}
			Block(KeyOf(&sent), "wait", func() bool { return sent == 12 })
			Close(ch)
			Settle()
		})
		if rep.Deadlock || len(rep.Crashes) > 0 || recvd != 12 || sum != (1+2+3+4)*3+10*4+20*4 {
			t.Fatalf("seed %d: deadlock=%v crashes=%v recvd=%d sum=%d blocked=%v", seed, rep.Deadlock, rep.Crashes, recvd, sum, rep.Blocked)
		}
	}
}

// a mutex-protected counter never loses an update; an unprotected read-modify-write does for some schedule
func TestSchedulerSensitivity(t *testing.T) {
	lost := 0
	for seed := uint64(1); seed < 200; seed++ {
		x := 0
		Run(Options{Chooser: &rr{n: seed}}, func() {
			done := 0
			for g := 0; g < 2; g++ {
				Go("inc", false, func() {
					v := x
					Point("between read and write")
					x = v + 1
					done++
				})
			}
			Block(KeyOf(&done), "wait", func() bool { return done == 2 })
		})
		if x != 2 {
			lost++
		}
	}
	if lost == 0 {
		t.Fatal("no schedule lost an update of the unprotected counter: the scheduler explores nothing")
	}
}
