package vrt

import (
	"reflect"
	"unsafe"
)

func chanKeyS[T any](ch chan<- T) uintptr { return uintptr(*(*unsafe.Pointer)(unsafe.Pointer(&ch))) }
func chanKeyR[T any](ch <-chan T) uintptr { return uintptr(*(*unsafe.Pointer)(unsafe.Pointer(&ch))) }

// Send is the cooperative `ch <- v`.
func Send[T any](ch chan<- T, v T) {
	if !Active() {
		if Aborting() {
			return
		}
		ch <- v
		return
	}
	if ch == nil {
		Block(0, "send on nil chan", func() bool { return false })
		return
	}
	key := chanKeyS(ch)
	if cap(ch) == 0 {
		sendUnbuffered(key, any(v))
		return
	}
	Block(key, "chan send", func() bool {
		select {
		case ch <- v:
			return true
		default:
			return false
		}
	})
	Wake(key)
}

// Recv2 is the cooperative `v, ok := <-ch`.
func Recv2[T any](ch <-chan T) (v T, ok bool) {
	if !Active() {
		if Aborting() {
			return v, false
		}
		v, ok = <-ch
		return
	}
	if ch == nil {
		Block(0, "recv on nil chan", func() bool { return false })
		return
	}
	key := chanKeyR(ch)
	if cap(ch) == 0 {
		x, got := recvUnbuffered(key, func() bool {
			select {
			case _, o := <-ch:
				return !o // only a closed channel is ever readable for real
			default:
				return false
			}
		})
		if got {
			v, _ = x.(T)
			return v, true
		}
		return v, false
	}
	Block(key, "chan recv", func() bool {
		select {
		case v, ok = <-ch:
			return true
		default:
			return false
		}
	})
	Wake(key)
	return
}

// Unbuffered channels are emulated: the real channel never carries data (nobody ever blocks in a
// real channel operation under the coop runtime). A sender publishes an offer and parks until a
// receiver has taken it; close is performed for real, so a receiver that finds no offer sees it.
type offer struct {
	v     any
	taken bool
}

func (s *Sched) offers(key uintptr) *[]*offer {
	if s.unbuf == nil {
		s.unbuf = map[uintptr]*[]*offer{}
	}
	if s.unbuf[key] == nil {
		s.unbuf[key] = &[]*offer{}
	}
	return s.unbuf[key]
}

func sendUnbuffered(key uintptr, v any) {
	s := S
	o := &offer{v: v}
	q := s.offers(key)
	Point("chan send")
	*q = append(*q, o)
	Wake(key)
	Block(key, "chan send (unbuffered)", func() bool { return o.taken })
}

func recvUnbuffered(key uintptr, closed func() bool) (any, bool) {
	s := S
	var got *offer
	isClosed := false
	Block(key, "chan recv (unbuffered)", func() bool {
		q := s.offers(key)
		if len(*q) > 0 {
			got = (*q)[0]
			*q = (*q)[1:]
			return true
		}
		if closed() {
			isClosed = true
			return true
		}
		return false
	})
	if isClosed || got == nil {
		return nil, false
	}
	got.taken = true
	Wake(key)
	return got.v, true
}

// Recv is the cooperative `<-ch`.
func Recv[T any](ch <-chan T) T {
	v, _ := Recv2(ch)
	return v
}

// Close is the cooperative close(ch).
func Close[T any](ch chan<- T) {
	if !Active() {
		if Aborting() {
			return
		}
		close(ch)
		return
	}
	Point("chan close")
	close(ch)
	Wake(chanKeyS(ch))
}

// WokeS / WokeR are inserted by the instrumenter at the top of a successful
// communication clause of a select that has a default clause.
func WokeS[T any](ch chan<- T) {
	if Active() {
		Wake(chanKeyS(ch))
	}
}
func WokeR[T any](ch <-chan T) {
	if Active() {
		Wake(chanKeyR(ch))
	}
}

// SelCase is one communication clause of a blocking select.
type SelCase struct {
	c   reflect.SelectCase
	key uintptr
}

func RecvCase[T any](ch <-chan T) SelCase {
	return SelCase{c: reflect.SelectCase{Dir: reflect.SelectRecv, Chan: reflect.ValueOf(ch)}, key: chanKeyR(ch)}
}
func SendCase[T any](ch chan<- T, v T) SelCase {
	return SelCase{c: reflect.SelectCase{Dir: reflect.SelectSend, Chan: reflect.ValueOf(ch), Send: reflect.ValueOf(&v).Elem()}, key: chanKeyS(ch)}
}

// Select is the cooperative blocking `select` (no default clause): it returns
// the index of the clause that proceeded, the received value and ok flag.
func Select(cases ...SelCase) (int, reflect.Value, bool) {
	rc := make([]reflect.SelectCase, 0, len(cases)+1)
	for _, c := range cases {
		if c.c.Chan.IsNil() {
			c.c.Chan = reflect.Value{} // nil channel: never ready
		} else if c.c.Dir == reflect.SelectSend && c.c.Chan.Cap() == 0 && Active() {
			Unsupported("select send on unbuffered channel")
		}
		rc = append(rc, c.c)
	}
	if !Active() {
		if Aborting() {
			return -1, reflect.Value{}, false
		}
		i, v, ok := reflect.Select(rc)
		return i, v, ok
	}
	rc = append(rc, reflect.SelectCase{Dir: reflect.SelectDefault})
	var (
		idx int
		val reflect.Value
		okk bool
	)
	s := S
	me := s.cur
	for {
		s.point("select")
		// receive clauses on unbuffered channels are served from the emulated offers first
		took := false
		for i, c := range cases {
			if c.c.Dir == reflect.SelectRecv && c.c.Chan.IsValid() && c.c.Chan.Cap() == 0 {
				if q := s.offers(c.key); len(*q) > 0 {
					o := (*q)[0]
					*q = (*q)[1:]
					o.taken = true
					idx, val, okk = i, reflect.ValueOf(o.v), true
					took = true
					break
				}
			}
		}
		if took {
			s.progress++
			break
		}
		idx, val, okk = reflect.Select(rc)
		if idx != len(rc)-1 {
			s.progress++
			break
		}
		// park until any of the channels is touched
		me.state = gBlocked
		me.key = 0
		me.what = "select"
		me.woken = false
		keys := make([]uintptr, len(cases))
		for i, c := range cases {
			keys[i] = c.key
		}
		me.keys = keys
		s.reschedule(me)
		me.state = gRunnable
		me.woken = false
		me.keys = nil
	}
	Wake(cases[idx].key)
	return idx, val, okk
}

// RecvVal converts the value received by Select for clause channel ch.
func RecvVal[T any](ch <-chan T, v reflect.Value) (z T) {
	if !v.IsValid() {
		return z
	}
	x, _ := v.Interface().(T)
	return x
}
