// Package vsync mirrors the API of package sync on top of the coop runtime.
// With no scheduler active every type passes through to the real primitive.
package vsync

import (
	"sync"
	"unsafe"

	"github.com/goptics/varmq/vrt"
)

type Locker = sync.Locker

type Mutex struct{ mu sync.Mutex }

func (m *Mutex) Lock() {
	if !vrt.Active() {
		if vrt.Aborting() {
			return
		}
		m.mu.Lock()
		return
	}
	vrt.Block(uintptr(unsafe.Pointer(m)), "Mutex.Lock", m.mu.TryLock)
}
func (m *Mutex) TryLock() bool {
	if vrt.Aborting() {
		return true
	}
	vrt.Point("Mutex.TryLock")
	return m.mu.TryLock()
}
func (m *Mutex) Unlock() {
	if vrt.Aborting() {
		return
	}
	vrt.Point("Mutex.Unlock")
	m.mu.Unlock()
	vrt.Wake(uintptr(unsafe.Pointer(m)))
}

// RWMutex with the writer preference of the real one: once a goroutine is waiting in Lock, new
// RLock calls wait behind it (so a recursive read lock with a writer in between deadlocks, as in Go).
type RWMutex struct {
	mu    sync.RWMutex
	wwait int // goroutines waiting in Lock
}

func (m *RWMutex) Lock() {
	if !vrt.Active() {
		if vrt.Aborting() {
			return
		}
		m.mu.Lock()
		return
	}
	reg := false
	defer func() {
		if reg {
			m.wwait--
		}
	}()
	vrt.Block(uintptr(unsafe.Pointer(m)), "RWMutex.Lock", func() bool {
		if m.mu.TryLock() {
			return true
		}
		if !reg {
			reg = true
			m.wwait++
		}
		return false
	})
}
func (m *RWMutex) Unlock() {
	if vrt.Aborting() {
		return
	}
	vrt.Point("RWMutex.Unlock")
	m.mu.Unlock()
	vrt.Wake(uintptr(unsafe.Pointer(m)))
}
func (m *RWMutex) RLock() {
	if !vrt.Active() {
		if vrt.Aborting() {
			return
		}
		m.mu.RLock()
		return
	}
	vrt.Block(uintptr(unsafe.Pointer(m)), "RWMutex.RLock", func() bool { return m.wwait == 0 && m.mu.TryRLock() })
}
func (m *RWMutex) RUnlock() {
	if vrt.Aborting() {
		return
	}
	vrt.Point("RWMutex.RUnlock")
	m.mu.RUnlock()
	vrt.Wake(uintptr(unsafe.Pointer(m)))
}
func (m *RWMutex) TryLock() bool {
	if vrt.Aborting() {
		return true
	}
	vrt.Point("RWMutex.TryLock")
	return m.mu.TryLock()
}
func (m *RWMutex) TryRLock() bool {
	if vrt.Aborting() {
		return true
	}
	vrt.Point("RWMutex.TryRLock")
	return m.wwait == 0 && m.mu.TryRLock()
}
func (m *RWMutex) RLocker() Locker { return (*rlocker)(m) }

type rlocker RWMutex

func (r *rlocker) Lock()   { (*RWMutex)(r).RLock() }
func (r *rlocker) Unlock() { (*RWMutex)(r).RUnlock() }

// WaitGroup with the panics of the real one that matter here. The counter is
// kept by the shim; in pass-through mode a real WaitGroup is kept in step so
// that objects created outside an episode still work inside one.
type WaitGroup struct {
	n   int
	wg0 sync.WaitGroup
}

func (wg *WaitGroup) Add(delta int) {
	if vrt.Aborting() {
		return
	}
	if !vrt.Active() {
		wg.n += delta
		wg.wg0.Add(delta)
		return
	}
	vrt.Point("WaitGroup.Add")
	wg.n += delta
	if wg.n < 0 {
		panic("sync: negative WaitGroup counter")
	}
	if wg.n == 0 {
		vrt.Wake(uintptr(unsafe.Pointer(wg)))
	}
}
func (wg *WaitGroup) Done() { wg.Add(-1) }
func (wg *WaitGroup) Wait() {
	if !vrt.Active() {
		if vrt.Aborting() {
			return
		}
		wg.wg0.Wait()
		return
	}
	vrt.Block(uintptr(unsafe.Pointer(wg)), "WaitGroup.Wait", func() bool { return wg.n == 0 })
}
func (wg *WaitGroup) Go(f func()) {
	wg.Add(1)
	vrt.Go("WaitGroup.Go", true, func() { defer wg.Done(); f() })
}

// Cond: FIFO waiters, no spurious wake-ups, Signal wakes exactly one.
type Cond struct {
	L       Locker
	waiters []*condWaiter
}
type condWaiter struct{ released bool }

func NewCond(l Locker) *Cond { return &Cond{L: l} }

func (c *Cond) Wait() {
	if vrt.Aborting() {
		return
	}
	if !vrt.Active() {
		panic("vsync.Cond.Wait outside a coop episode")
	}
	// the caller evaluated its condition before calling Wait: it can be preempted
	// between that and its registration on the notify list
	vrt.Point("Cond.Wait")
	w := &condWaiter{}
	c.waiters = append(c.waiters, w)
	c.L.Unlock()
	vrt.Block(uintptr(unsafe.Pointer(c)), "Cond.Wait", func() bool { return w.released })
	c.L.Lock()
}
func (c *Cond) Broadcast() {
	if vrt.Aborting() {
		return
	}
	vrt.Point("Cond.Broadcast")
	for _, w := range c.waiters {
		w.released = true
	}
	c.waiters = c.waiters[:0]
	vrt.Wake(uintptr(unsafe.Pointer(c)))
}
func (c *Cond) Signal() {
	if vrt.Aborting() {
		return
	}
	vrt.Point("Cond.Signal")
	if len(c.waiters) > 0 {
		c.waiters[0].released = true
		c.waiters = c.waiters[1:]
	}
	vrt.Wake(uintptr(unsafe.Pointer(c)))
}

// Pool: deterministic LIFO free list (the real pool may drop items; always
// reusing is the most adversarial behaviour for stale-state bugs).
type Pool struct {
	New   func() any
	items []any
}

func (p *Pool) Get() any {
	vrt.Point("Pool.Get")
	if n := len(p.items); n > 0 {
		x := p.items[n-1]
		p.items = p.items[:n-1]
		return x
	}
	if p.New != nil {
		return p.New()
	}
	return nil
}
func (p *Pool) Put(x any) {
	if x == nil {
		return
	}
	vrt.Point("Pool.Put")
	p.items = append(p.items, x)
}

type Once struct {
	done bool
	m    Mutex
}

func (o *Once) Do(f func()) {
	o.m.Lock()
	defer o.m.Unlock()
	if !o.done {
		defer func() { o.done = true }()
		f()
	}
}

func OnceFunc(f func()) func() {
	var o Once
	return func() { o.Do(f) }
}
func OnceValues[T1, T2 any](f func() (T1, T2)) func() (T1, T2) {
	var o Once
	var v1 T1
	var v2 T2
	return func() (T1, T2) { o.Do(func() { v1, v2 = f() }); return v1, v2 }
}
func OnceValue[T any](f func() T) func() T {
	var o Once
	var v T
	return func() T { o.Do(func() { v = f() }); return v }
}

// Map: mutex-protected map with scheduling points.
type Map struct {
	mu Mutex
	m  map[any]any
}

func (m *Map) Load(k any) (any, bool) {
	m.mu.Lock()
	defer m.mu.Unlock()
	v, ok := m.m[k]
	return v, ok
}
func (m *Map) Store(k, v any) {
	m.mu.Lock()
	defer m.mu.Unlock()
	if m.m == nil {
		m.m = map[any]any{}
	}
	m.m[k] = v
}
func (m *Map) LoadOrStore(k, v any) (any, bool) {
	m.mu.Lock()
	defer m.mu.Unlock()
	if m.m == nil {
		m.m = map[any]any{}
	}
	if x, ok := m.m[k]; ok {
		return x, true
	}
	m.m[k] = v
	return v, false
}
func (m *Map) LoadAndDelete(k any) (any, bool) {
	m.mu.Lock()
	defer m.mu.Unlock()
	v, ok := m.m[k]
	delete(m.m, k)
	return v, ok
}
func (m *Map) Delete(k any) { m.LoadAndDelete(k) }
func (m *Map) Swap(k, v any) (any, bool) {
	m.mu.Lock()
	defer m.mu.Unlock()
	if m.m == nil {
		m.m = map[any]any{}
	}
	old, ok := m.m[k]
	m.m[k] = v
	return old, ok
}
func (m *Map) CompareAndSwap(k, old, new any) bool {
	m.mu.Lock()
	defer m.mu.Unlock()
	if x, ok := m.m[k]; ok && x == old {
		m.m[k] = new
		return true
	}
	return false
}
func (m *Map) CompareAndDelete(k, old any) bool {
	m.mu.Lock()
	defer m.mu.Unlock()
	if x, ok := m.m[k]; ok && x == old {
		delete(m.m, k)
		return true
	}
	return false
}
func (m *Map) Range(f func(k, v any) bool) {
	m.mu.Lock()
	type kv struct{ k, v any }
	var all []kv
	for k, v := range m.m {
		all = append(all, kv{k, v})
	}
	m.mu.Unlock()
	for _, e := range all {
		if !f(e.k, e.v) {
			return
		}
	}
}
func (m *Map) Clear() {
	m.mu.Lock()
	defer m.mu.Unlock()
	m.m = nil
}
