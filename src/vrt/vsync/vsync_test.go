package vsync

import (
	"testing"

	"github.com/goptics/varmq/vrt"
)

type rr struct{ n uint64 }

func (r *rr) Spawned(*vrt.G) {}
func (r *rr) Pick(step int, en []*vrt.G, me *vrt.G, clockOK bool) (*vrt.G, bool) {
	r.n = r.n*6364136223846793005 + 1442695040888963407
	if len(en) == 0 {
		return nil, false
	}
	return en[(r.n>>33)%uint64(len(en))], false
}

// Writer preference: a recursive read lock deadlocks exactly when a writer asks for the lock between
// the two RLock calls (as with the real sync.RWMutex); plain reader/writer use never deadlocks.
func TestRWMutexWriterPreference(t *testing.T) {
	dead, fine := 0, 0
	for seed := uint64(1); seed < 300; seed++ {
		var m RWMutex
		x := 0
		rep := vrt.Run(vrt.Options{Chooser: &rr{n: seed}}, func() {
			done := 0
			fin := func() { done++; vrt.Wake(vrt.KeyOf(&done)) }
			vrt.Go("writer", false, func() { m.Lock(); x++; m.Unlock(); fin() })
			vrt.Go("reader", false, func() { m.RLock(); m.RLock(); _ = x; m.RUnlock(); m.RUnlock(); fin() })
			vrt.Block(vrt.KeyOf(&done), "wait", func() bool { return done == 2 })
		})
		if rep.Deadlock {
			dead++
		} else {
			fine++
			if x != 1 {
				t.Fatalf("seed %d: writer did not run", seed)
			}
		}
	}
	if dead == 0 || fine == 0 {
		t.Fatalf("recursive RLock: %d deadlocking schedules, %d fine (want both > 0)", dead, fine)
	}
	for seed := uint64(1); seed < 300; seed++ {
		var m RWMutex
		x, reads := 0, 0
		rep := vrt.Run(vrt.Options{Chooser: &rr{n: seed}}, func() {
			done := 0
			fin := func() { done++; vrt.Wake(vrt.KeyOf(&done)) }
			for i := 0; i < 2; i++ {
				vrt.Go("writer", false, func() { m.Lock(); x++; m.Unlock(); fin() })
			}
			for i := 0; i < 3; i++ {
				vrt.Go("reader", false, func() { m.RLock(); _ = x; reads++; m.RUnlock(); m.RLock(); reads++; m.RUnlock(); fin() })
			}
			vrt.Block(vrt.KeyOf(&done), "wait", func() bool { return done == 5 })
		})
		if rep.Deadlock || x != 2 || reads != 6 || m.wwait != 0 {
			t.Fatalf("seed %d: deadlock=%v x=%d reads=%d wwait=%d %v", seed, rep.Deadlock, x, reads, m.wwait, rep.Blocked)
		}
	}
}
