// Package vperturb is called before statements of the library in the race
// engine: with a small probability it yields or stalls the calling goroutine,
// so that the race detector sees more interleavings. It uses the runtime's
// per-thread random source (no locks, no atomics: no happens-before edges).
package vperturb

import (
	"math/rand/v2"
	"runtime"
)

// Rate is the inverse probability of a perturbation at a statement.
var Rate uint32 = 24

func P() {
	x := rand.Uint32()
	if x%Rate != 0 {
		return
	}
	switch (x >> 8) % 4 {
	case 0, 1:
		runtime.Gosched()
	case 2:
		for i := 0; i < int((x>>12)%400); i++ {
			_ = i
		}
		runtime.Gosched()
	default:
		for i := 0; i < 3; i++ {
			runtime.Gosched()
		}
	}
}
