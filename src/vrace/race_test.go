// Package vrace: C19 — generated concurrent client programs on the real
// runtime under the Go race detector (engine "race").
package vrace

import (
	"context"
	"encoding/json"
	"fmt"
	"hash/fnv"
	"os"
	"path/filepath"
	"sort"
	"strconv"
	"strings"
	"sync"
	"sync/atomic"
	"testing"
	"time"

	"github.com/goptics/varmq"
	"pgregory.net/rapid"
)

type Op struct {
	Op string `json:"op"`
	Q  int    `json:"q,omitempty"`
	H  int    `json:"h,omitempty"`
	V  int    `json:"v,omitempty"`
	N  int    `json:"n,omitempty"`
}

type Prog struct {
	Kind    string   `json:"kind"` // plain err res
	Queues  []string `json:"queues"`
	Conc    int      `json:"conc"`
	Expiry  int      `json:"expiry_us"`
	Ratio   int      `json:"ratio"`
	Ctx     bool     `json:"ctx"`
	Clients [][]Op   `json:"clients"`
}

var clientOps = []string{"add", "add", "add", "addall", "addall", "wait", "result", "close", "status", "purge", "qpending", "npend", "nproc", "nidle", "nconc", "wstatus", "metrics", "errs", "gconsume", "gpending", "gwait", "drain", "ctx", "wuf", "yield", "mreset"}
var ctrlOps = []string{"pause", "resume", "pausewait", "restart", "tune", "stop", "restart", "bind", "tune", "waitstop"}

func genProg() *rapid.Generator[*Prog] {
	return rapid.Custom(func(t *rapid.T) *Prog {
		p := &Prog{Kind: rapid.SampledFrom([]string{"plain", "err", "res", "res"}).Draw(t, "kind"),
			Conc:   rapid.SampledFrom([]int{1, 2, 3, 4, 8}).Draw(t, "conc"),
			Expiry: rapid.SampledFrom([]int{0, 0, 30, 200}).Draw(t, "expiry"),
			Ratio:  rapid.SampledFrom([]int{0, 20, 100}).Draw(t, "ratio"),
			Ctx:    rapid.IntRange(0, 2).Draw(t, "ctx") == 0}
		nq := rapid.IntRange(1, 2).Draw(t, "nq")
		for i := 0; i < nq; i++ {
			p.Queues = append(p.Queues, rapid.SampledFrom([]string{"std", "prio"}).Draw(t, "qkind"))
		}
		nc := rapid.IntRange(2, 5).Draw(t, "nclients")
		for c := 0; c < nc; c++ {
			var ops []Op
			n := rapid.IntRange(2, 10).Draw(t, "nops")
			for i := 0; i < n; i++ {
				var name string
				if c == 0 && rapid.IntRange(0, 2).Draw(t, "ctrl") == 0 {
					name = rapid.SampledFrom(ctrlOps).Draw(t, "ctrlop")
				} else {
					name = rapid.SampledFrom(clientOps).Draw(t, "op")
					// accessors of state that lifecycle calls replace: make them frequent enough to overlap
					if rapid.IntRange(0, 5).Draw(t, "accessor") == 0 {
						name = rapid.SampledFrom([]string{"ctx", "errs", "wstatus", "metrics", "nidle", "mreset"}).Draw(t, "accessorop")
					}
				}
				ops = append(ops, Op{Op: name, Q: rapid.IntRange(0, nq-1).Draw(t, "q"), H: rapid.IntRange(0, 7).Draw(t, "h"), V: rapid.SampledFrom([]int{1, 2, 3, 4, 0}).Draw(t, "v"), N: rapid.IntRange(0, 5).Draw(t, "n")})
			}
			p.Clients = append(p.Clients, ops)
		}
		return p
	})
}

// uniform handles
type jh struct {
	wait   func()
	close  func() error
	status func() string
	result func()
	drain  func()
}
type gh struct {
	npend   func() int
	wait    func()
	consume func()
	drain   func()
}
type qh struct {
	add    func(v int, prio int) *jh
	addAll func(n int) *gh
	purge  func()
	npend  func() int
}

type episode struct {
	w      varmq.Worker
	qs     []*qh
	mu     sync.Mutex
	jobs   []*jh
	groups []*gh
	bind   func() *qh
	guardsFired atomic.Int32
	overlap atomic.Int32
	inWF    atomic.Int32
	clientsRunning atomic.Int32
}

func (e *episode) job(h int) *jh {
	e.mu.Lock()
	defer e.mu.Unlock()
	if len(e.jobs) == 0 {
		return nil
	}
	return e.jobs[h%len(e.jobs)]
}
func (e *episode) group(h int) *gh {
	e.mu.Lock()
	defer e.mu.Unlock()
	if len(e.groups) == 0 {
		return nil
	}
	return e.groups[h%len(e.groups)]
}

// guard abandons a blocking call after a generous wall-clock budget (known liveness
// limits must not wedge the campaign); a firing guard is counted, never reported.
func (e *episode) guard(f func()) {
	done := make(chan struct{})
	go func() { defer close(done); f() }()
	select {
	case <-done:
	case <-time.After(2 * time.Second):
		e.guardsFired.Add(1)
	}
}

func items(n int) []varmq.Item[int] {
	out := make([]varmq.Item[int], n)
	for i := range out {
		out[i] = varmq.Item[int]{ID: strconv.Itoa(i), Data: i, Priority: i % 3}
	}
	return out
}

func setup(p *Prog) (*episode, context.CancelFunc) {
	e := &episode{}
	opts := []any{varmq.WithConcurrency(p.Conc)}
	if p.Expiry > 0 {
		opts = append(opts, varmq.WithIdleWorkerExpiryDuration(time.Duration(p.Expiry)*time.Microsecond))
	}
	if p.Ratio > 0 {
		opts = append(opts, varmq.WithMinIdleWorkerRatio(uint8(p.Ratio)))
	}
	var cancel context.CancelFunc = func() {}
	if p.Ctx {
		var ctx context.Context
		ctx, cancel = context.WithCancel(context.Background())
		opts = append(opts, varmq.WithContext(ctx))
	}
	body := func(j varmq.Job[int]) {
		e.inWF.Add(1)
		if e.clientsRunning.Load() >= 2 {
			e.overlap.Add(1)
		}
		_ = j.ID()
		if j.Data()%3 == 0 {
			time.Sleep(20 * time.Microsecond)
		}
		e.inWF.Add(-1)
	}
	switch p.Kind {
	case "plain":
		w := varmq.NewWorker(func(j varmq.Job[int]) { body(j) }, opts...)
		e.w = w
		mk := func(kind string) *qh {
			mkj := func(j varmq.EnqueuedJob) *jh { return &jh{wait: j.Wait, close: j.Close, status: j.Status, result: j.Wait} }
			mkg := func(g varmq.EnqueuedGroupJob) *gh { return &gh{npend: g.NumPending, wait: g.Wait} }
			if kind == "prio" {
				q := w.BindPriorityQueue()
				return &qh{add: func(v, pr int) *jh {
					if j, ok := q.Add(v, pr); ok {
						return mkj(j)
					}
					return nil
				}, addAll: func(n int) *gh { return mkg(q.AddAll(items(n))) }, purge: q.Purge, npend: q.NumPending}
			}
			q := w.BindQueue()
			return &qh{add: func(v, pr int) *jh {
				if j, ok := q.Add(v); ok {
					return mkj(j)
				}
				return nil
			}, addAll: func(n int) *gh { return mkg(q.AddAll(items(n))) }, purge: q.Purge, npend: q.NumPending}
		}
		e.bind = func() *qh { return mk("std") }
		for _, k := range p.Queues {
			e.qs = append(e.qs, mk(k))
		}
	case "err":
		w := varmq.NewErrWorker(func(j varmq.Job[int]) error {
			body(j)
			if j.Data()%4 == 1 {
				return fmt.Errorf("e%d", j.Data())
			}
			return nil
		}, opts...)
		e.w = w
		mk := func(kind string) *qh {
			mkj := func(j varmq.EnqueuedErrJob) *jh {
				return &jh{wait: j.Wait, close: j.Close, status: j.Status, result: func() { j.Err() }, drain: j.Drain}
			}
			mkg := func(g varmq.EnqueuedErrGroupJob) *gh {
				return &gh{npend: g.NumPending, wait: g.Wait, drain: g.Drain, consume: func() {
					for range g.Errs() {
					}
				}}
			}
			if kind == "prio" {
				q := w.BindPriorityQueue()
				return &qh{add: func(v, pr int) *jh {
					if j, ok := q.Add(v, pr); ok {
						return mkj(j)
					}
					return nil
				}, addAll: func(n int) *gh { return mkg(q.AddAll(items(n))) }, purge: q.Purge, npend: q.NumPending}
			}
			q := w.BindQueue()
			return &qh{add: func(v, pr int) *jh {
				if j, ok := q.Add(v); ok {
					return mkj(j)
				}
				return nil
			}, addAll: func(n int) *gh { return mkg(q.AddAll(items(n))) }, purge: q.Purge, npend: q.NumPending}
		}
		e.bind = func() *qh { return mk("std") }
		for _, k := range p.Queues {
			e.qs = append(e.qs, mk(k))
		}
	default:
		w := varmq.NewResultWorker(func(j varmq.Job[int]) (int, error) {
			body(j)
			if j.Data()%4 == 1 {
				return 0, fmt.Errorf("e%d", j.Data())
			}
			if j.Data()%7 == 6 {
				panic("p")
			}
			return j.Data() * 2, nil
		}, opts...)
		e.w = w
		mk := func(kind string) *qh {
			mkj := func(j varmq.EnqueuedResultJob[int]) *jh {
				return &jh{wait: j.Wait, close: j.Close, status: j.Status, result: func() { j.Result() }, drain: j.Drain}
			}
			mkg := func(g varmq.EnqueuedResultGroupJob[int]) *gh {
				return &gh{npend: g.NumPending, wait: g.Wait, drain: g.Drain, consume: func() {
					for range g.Results() {
					}
				}}
			}
			if kind == "prio" {
				q := w.BindPriorityQueue()
				return &qh{add: func(v, pr int) *jh {
					if j, ok := q.Add(v, pr); ok {
						return mkj(j)
					}
					return nil
				}, addAll: func(n int) *gh { return mkg(q.AddAll(items(n))) }, purge: q.Purge, npend: q.NumPending}
			}
			q := w.BindQueue()
			return &qh{add: func(v, pr int) *jh {
				if j, ok := q.Add(v); ok {
					return mkj(j)
				}
				return nil
			}, addAll: func(n int) *gh { return mkg(q.AddAll(items(n))) }, purge: q.Purge, npend: q.NumPending}
		}
		e.bind = func() *qh { return mk("std") }
		for _, k := range p.Queues {
			e.qs = append(e.qs, mk(k))
		}
	}
	return e, cancel
}

func (e *episode) do(c int, op Op, cancel context.CancelFunc) {
	q := e.qs[op.Q%len(e.qs)]
	switch op.Op {
	case "add":
		if j := q.add(c*100+op.N, op.V); j != nil {
			e.mu.Lock()
			e.jobs = append(e.jobs, j)
			e.mu.Unlock()
		}
	case "addall":
		g := q.addAll(op.N)
		e.mu.Lock()
		e.groups = append(e.groups, g)
		e.mu.Unlock()
	case "wait":
		if j := e.job(op.H); j != nil {
			e.guard(j.wait)
		}
	case "result":
		if j := e.job(op.H); j != nil {
			e.guard(j.result)
		}
	case "close":
		if j := e.job(op.H); j != nil {
			j.close()
		}
	case "status":
		if j := e.job(op.H); j != nil {
			_ = j.status()
		}
	case "drain":
		if j := e.job(op.H); j != nil && j.drain != nil && false {
			j.drain()
		}
	case "purge":
		q.purge()
	case "qpending":
		_ = q.npend()
	case "npend":
		_ = e.w.NumPending()
	case "nproc":
		_ = e.w.NumProcessing()
	case "nidle":
		_ = e.w.NumIdleWorkers()
	case "nconc":
		_ = e.w.NumConcurrency()
	case "wstatus":
		_ = e.w.Status()
		_ = e.w.IsRunning()
	case "metrics":
		m := e.w.Metrics()
		_ = m.Submitted() + m.Completed() + m.Failed() + m.Successful()
	case "mreset":
		e.w.Metrics().Reset()
	case "waitstop":
		e.guard(func() { e.w.WaitAndStop() })
	case "errs":
		select {
		case <-e.w.Errs():
		default:
		}
	case "ctx":
		if ctx := e.w.Context(); ctx != nil {
			_ = ctx.Err()
		}
	case "gconsume":
		if g := e.group(op.H); g != nil && g.consume != nil {
			e.guard(g.consume)
		}
	case "gpending":
		if g := e.group(op.H); g != nil {
			_ = g.npend()
		}
	case "gwait":
		if g := e.group(op.H); g != nil {
			e.guard(g.wait)
		}
	case "wuf":
		e.guard(e.w.WaitUntilFinished)
	case "yield":
		time.Sleep(5 * time.Microsecond)
	// lifecycle: client 0 only
	case "pause":
		e.w.Pause()
	case "resume":
		e.w.Resume()
	case "pausewait":
		e.guard(func() { e.w.PauseAndWait() })
	case "stop":
		e.guard(func() { e.w.Stop() })
	case "restart":
		e.guard(func() { e.w.Restart() })
	case "tune":
		e.w.TunePool(op.V)
	case "bind":
		nq := e.bind()
		_ = nq
	}
}

func runProg(p *Prog) (overlapped bool, guards int) {
	e, cancel := setup(p)
	defer cancel()
	var wg sync.WaitGroup
	start := make(chan struct{})
	for c, ops := range p.Clients {
		wg.Add(1)
		go func(c int, ops []Op) {
			defer wg.Done()
			<-start
			e.clientsRunning.Add(1)
			for _, op := range ops {
				e.do(c, op, cancel)
			}
			e.clientsRunning.Add(-1)
		}(c, ops)
	}
	close(start)
	wg.Wait()
	e.guard(func() {
		if e.w.IsPaused() {
			e.w.Resume()
		}
		if e.w.IsStopped() {
			e.w.Restart()
		}
		e.w.WaitUntilFinished()
	})
	e.guard(func() { e.w.Stop() })
	return e.overlap.Load() > 0, int(e.guardsFired.Load())
}

type stats struct {
	Evaluations int            `json:"evaluations"`
	Classes     map[string]int `json:"classes"`
	Verdicts    map[string]int `json:"verdicts"`
	Hashes      []string       `json:"hashes"`
	Samples     []any          `json:"samples"`
	Extra       map[string]any `json:"extra"`
}

func TestC19(t *testing.T) {
	out := os.Getenv("VERIF_OUT")
	seed, _ := strconv.Atoi(os.Getenv("VERIF_RSEED"))
	n, _ := strconv.Atoi(os.Getenv("VERIF_PROGRAMS"))
	if n == 0 {
		n = 50
	}
	st := &stats{Classes: map[string]int{}, Verdicts: map[string]int{}, Extra: map[string]any{}}
	hs := map[uint64]bool{}
	gen := genProg()
	guards := 0
	var racy []any
	for i := 0; i < n; i++ {
		p := gen.Example(seed*100003 + i)
		b, _ := json.Marshal(p)
		if out != "" {
			os.WriteFile(filepath.Join(out, "cur.json"), b, 0o644)
		}
		fmt.Fprintf(os.Stderr, "VRACE-EPISODE %d %s\n", i, b)
		ok := t.Run(fmt.Sprintf("prog%d", i), func(t *testing.T) {
			for rep := 0; rep < 3; rep++ {
				ov, g := runProg(p)
				guards += g
				st.Evaluations++
				st.Classes["kind:"+p.Kind]++
				if ov {
					st.Classes["overlap"]++
					h := fnv.New64a()
					h.Write(b)
					fmt.Fprint(h, rep)
					hs[h.Sum64()] = true
				}
			}
		})
		fmt.Fprintf(os.Stderr, "VRACE-END %d ok=%v\n", i, ok)
		if !ok {
			st.Verdicts["race"]++
			racy = append(racy, p)
		} else {
			st.Verdicts["ok"]++
			if len(st.Samples) < 3 {
				st.Samples = append(st.Samples, map[string]any{"program": p, "outcome": "3 executions, no race reported"})
			}
		}
	}
	st.Extra["guards_fired"] = guards
	st.Extra["racy_programs"] = len(racy)
	for h := range hs {
		st.Hashes = append(st.Hashes, fmt.Sprintf("%016x", h))
	}
	sort.Strings(st.Hashes)
	if out != "" {
		b, _ := json.Marshal(st)
		os.WriteFile(filepath.Join(out, "summary.json"), b, 0o644)
		if len(racy) > 0 {
			rb, _ := json.MarshalIndent(map[string]any{"engine": "race", "programs": racy}, "", " ")
			os.WriteFile(filepath.Join(out, "racy_programs.json"), rb, 0o644)
		}
	}
}

// TestReplay re-runs stored racy programs many times (VERIF_REPLAY).
func TestReplay(t *testing.T) {
	files := os.Getenv("VERIF_REPLAY")
	if files == "" {
		t.Skip("no replay files")
	}
	for _, f := range strings.Split(files, ":") {
		b, err := os.ReadFile(f)
		if err != nil {
			t.Fatal(err)
		}
		var d struct {
			Programs []*Prog `json:"programs"`
		}
		if json.Unmarshal(b, &d) != nil {
			continue
		}
		for i, p := range d.Programs {
			pb, _ := json.Marshal(p)
			fmt.Fprintf(os.Stderr, "VRACE-EPISODE %d %s\n", i, pb)
			t.Run(fmt.Sprintf("replay%d", i), func(t *testing.T) {
				for rep := 0; rep < 30; rep++ {
					runProg(p)
				}
			})
			fmt.Fprintf(os.Stderr, "VRACE-END %d\n", i)
		}
	}
}
