#!/bin/bash
# tools/seedrun.sh <seeded-name> <prop> [<prop>...] : run checks against a seeded change applied to a scratch worktree (/tmp/seedrun)
N=$1; shift
W=/tmp/seedrun
cd $W && git checkout -q -- . && git clean -fdq && git checkout -q --detach $(git -C /repo rev-parse HEAD) || exit 1
git apply /verif/seeded/$N/patch.diff || { echo "patch does not apply"; exit 1; }
cd /verif
for P in "$@"; do
  out=$(VERIF_REPO=$W VERIF_EVIDENCE_DIR=/tmp/vw/evidence_seed ./check $P --tier ${TIER:-quick} 2>&1 | grep -E "^VIOLATION|^check |KNOWN" | head -5)
  echo "[$N] $P: $out"
done
cd $W && git checkout -q -- .
