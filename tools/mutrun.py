#!/usr/bin/env python3
"""Self-test: runs the target checks (quick tier) against every hand-written mutant and seeded change.
usage: tools/mutrun.py [name-substring ...]   -> results appended to /tmp/vw/mutrun.log and printed"""
import json, subprocess, sys, os, glob, time
W = os.environ.get("MUTW", "/tmp/seedrun")
def sh(cmd, **kw):
    return subprocess.run(cmd, shell=True, capture_output=True, text=True, **kw)
head = sh("git -C /repo rev-parse HEAD").stdout.strip()
items = []
for m in json.load(open("/verif/mutants/index.json")):
    items.append((m["name"], "/verif/mutants/%s.patch" % m["name"], m["targets"]))
for d in sorted(glob.glob("/verif/seeded/*/")):
    name = os.path.basename(d.rstrip("/"))
    tg = [name.split("-")[0]]
    mf = os.path.join(d, "meta.json")
    if os.path.exists(mf):
        tg = json.load(open(mf)).get("checks", tg)
    items.append((name, os.path.join(d, "patch.diff"), tg))
sel = sys.argv[1:]
tier = os.environ.get("TIER", "quick")
for name, patch, targets in items:
    if sel and not any(s in name for s in sel):
        continue
    sh("git -C %s checkout -q -- . && git -C %s clean -fdq && git -C %s checkout -q --detach %s" % (W, W, W, head))
    a = sh("git -C %s apply %s" % (W, patch))
    if a.returncode != 0:
        print("%-48s patch does not apply: %s" % (name, a.stderr.strip()[:100]), flush=True)
        continue
    res = []
    for p in targets:
        t0 = time.time()
        r = sh("cd /verif && VERIF_REPO=%s VERIF_SEED=%s ./check %s --tier %s" % (W, os.environ.get("VERIF_SEED", "1"), p, tier))
        viol = [l for l in r.stdout.splitlines() if l.startswith("VIOLATION")]
        res.append("%s:%s(%ds)" % (p, "CAUGHT" if viol else ("exit%d" % r.returncode), time.time() - t0))
    line = "%-48s %s" % (name, " ".join(res))
    print(line, flush=True)
    open("/tmp/vw/mutrun.log", "a").write(line + "\n")
    sh("git -C %s checkout -q -- ." % W)
