#!/usr/bin/env python3
"""Regenerates /verif/MANIFEST.json from lib/props.py and lib/manifest_meta.py."""
import json, os, sys
V = os.path.dirname(os.path.dirname(os.path.abspath(__file__)))
sys.path.insert(0, os.path.join(V, "lib"))
from props import PROPS
from manifest_meta import META, NOT_APPLICABLE, ENGINES
props = [json.loads(l)["id"] for l in open(os.path.join(V, "properties.jsonl"))]
checks = []
for pid in props:
    if pid not in PROPS or pid not in META:
        continue
    m = META[pid]
    checks.append({
        "property_id": pid,
        "quick_cmd": "./check %s --tier quick" % pid,
        "thorough_cmd": "./check %s --tier thorough" % pid,
        "evidence_file": "evidence/%s.json" % pid,
        "replay_cmd_template": "./check %s --replay {path}" % pid,
        "engine": PROPS[pid]["engine"],
        "level_claimed": {"category": PROPS[pid]["level"], "text": m["text"], "design_ref": "DESIGN.md section 7 (%s)" % pid},
        "level_note": m["note"],
        "technique": m["technique"],
    })
na = [{"property_id": p, "reason": NOT_APPLICABLE.get(p, "check not built yet (work in progress)")} for p in props if p not in [c["property_id"] for c in checks]]
man = {"version": 1, "setup_cmd": "./check --setup",
       "hooks": {"guard": "verif", "enable": "no hooks in /repo: checks instrument a scratch copy of /repo's working tree at check time (tools/instr)",
                 "baseline_off_cmd": "cd /repo && go test -mod=mod -json -vet=off -count=1 -timeout 25m ./...", "source_commits": [], "add_only": True},
       "engines": ENGINES, "checks": checks, "not_applicable": na,
       "notes": "All checks are property-based tests / fuzzing campaigns (pgregory.net/rapid, go test -fuzz); see DESIGN.md."}
json.dump(man, open(os.path.join(V, "MANIFEST.json"), "w"), indent=1)
print("MANIFEST.json: %d checks, %d not_applicable" % (len(checks), len(na)))
