#!/bin/bash
# tools/allchecks.sh <seed> [tier] : run every registered check once, print exit codes (stability runs use a scratch evidence dir)
S=${1:-1}; T=${2:-quick}
cd /verif
for p in C01 C02 C03 C04 C05 C06 C07 C08 C09 C10 C11 C12 C13 C14 C15 C16 C17 C18 C19; do
  t0=$(date +%s)
  out=$(VERIF_SEED=$S VERIF_EVIDENCE_DIR=/tmp/vw/evid_$S VERIF_FOUND_DIR=/tmp/vw/found_$S ./check $p --tier $T 2>&1); rc=$?
  echo "$p seed=$S rc=$rc $(( $(date +%s) - t0 ))s $(echo "$out" | grep -E '^check |VIOLATION|KNOWN' | head -3 | tr '\n' ' ')"
done
