// instr rewrites a scratch copy of the library so that every synchronisation
// operation goes through the vrt coop runtime (mode "coop"), or inserts
// perturbation calls for the race engine (mode "race").
//
//	instr coop <dir>   |   instr race <dir>
//
// Exit status 2 = a construct the instrumenter cannot handle (the check is
// then inconclusive, never a verdict).
package main

import (
	"bytes"
	"fmt"
	"go/ast"
	"go/format"
	"go/token"
	"go/types"
	"os"
	"strconv"
	"strings"

	"golang.org/x/tools/go/ast/astutil"
	"golang.org/x/tools/go/packages"
)

const modPath = "github.com/goptics/varmq"

var shim = map[string][2]string{
	"sync":        {modPath + "/vrt/vsync", "sync"},
	"sync/atomic": {modPath + "/vrt/vatomic", "atomic"},
	"time":        {modPath + "/vrt/vtime", "time"},
}

func fail(format string, a ...any) {
	fmt.Fprintf(os.Stderr, "instr: unsupported: "+format+"\n", a...)
	os.Exit(2)
}

func skipPkg(path string) bool {
	for _, s := range []string{"/vrt", "/vharness", "/vseq", "/vrace", "/mocks", "/examples"} {
		if strings.HasPrefix(path, modPath+s) {
			return true
		}
	}
	return false
}

func main() {
	if len(os.Args) != 3 {
		fmt.Fprintln(os.Stderr, "usage: instr coop|race <dir>")
		os.Exit(2)
	}
	mode, dir := os.Args[1], os.Args[2]
	cfg := &packages.Config{Mode: packages.NeedName | packages.NeedFiles | packages.NeedSyntax | packages.NeedTypes | packages.NeedTypesInfo | packages.NeedImports | packages.NeedDeps, Dir: dir}
	pkgs, err := packages.Load(cfg, "./...")
	if err != nil {
		fmt.Fprintln(os.Stderr, "instr: load:", err)
		os.Exit(2)
	}
	nfiles, nsites := 0, 0
	for _, p := range pkgs {
		if skipPkg(p.PkgPath) {
			continue
		}
		if len(p.Errors) > 0 {
			fmt.Fprintln(os.Stderr, "instr: type errors in", p.PkgPath, p.Errors)
			os.Exit(2)
		}
		for _, f := range p.Syntax {
			name := p.Fset.Position(f.Package).Filename
			if strings.HasSuffix(name, "_test.go") {
				continue
			}
			var n int
			if mode == "coop" {
				n = instrument(p, f)
			} else {
				n = perturb(p, f)
			}
			nsites += n
			// drop comments except //go: directives (positions are stale after rewriting)
			var keep []*ast.CommentGroup
			for _, cg := range f.Comments {
				for _, c := range cg.List {
					if strings.HasPrefix(c.Text, "//go:") && cg.End() < f.Package {
						keep = append(keep, cg)
						break
					}
				}
			}
			f.Comments = keep
			f.Doc = nil
			var buf bytes.Buffer
			if err := format.Node(&buf, p.Fset, f); err != nil {
				fmt.Fprintln(os.Stderr, "instr: format:", name, err)
				os.Exit(2)
			}
			if err := os.WriteFile(name, buf.Bytes(), 0o644); err != nil {
				fmt.Fprintln(os.Stderr, "instr:", err)
				os.Exit(2)
			}
			nfiles++
		}
	}
	fmt.Printf("instr %s: %d files, %d sites\n", mode, nfiles, nsites)
}

func sel(pkg, name string) ast.Expr {
	return &ast.SelectorExpr{X: ast.NewIdent(pkg), Sel: ast.NewIdent(name)}
}
func call(fun ast.Expr, args ...ast.Expr) *ast.CallExpr { return &ast.CallExpr{Fun: fun, Args: args} }
func str(s string) ast.Expr                             { return &ast.BasicLit{Kind: token.STRING, Value: strconv.Quote(s)} }
func define(lhs ast.Expr, rhs ast.Expr) ast.Stmt {
	return &ast.AssignStmt{Lhs: []ast.Expr{lhs}, Tok: token.DEFINE, Rhs: []ast.Expr{rhs}}
}

func isCancelFunc(t types.Type) bool {
	n, ok := t.(*types.Named)
	if !ok {
		if a, ok2 := t.(*types.Alias); ok2 {
			return isCancelFunc(types.Unalias(a))
		}
		return false
	}
	o := n.Obj()
	return o != nil && o.Pkg() != nil && o.Pkg().Path() == "context" && (o.Name() == "CancelFunc" || o.Name() == "CancelCauseFunc")
}

func instrument(p *packages.Package, f *ast.File) int {
	sites := 0
	needVrt := false
	info := p.TypesInfo
	pos := func(n ast.Node) string {
		ps := p.Fset.Position(n.Pos())
		parts := strings.Split(ps.Filename, "/")
		return parts[len(parts)-1] + ":" + strconv.Itoa(ps.Line)
	}
	isChan := func(e ast.Expr) bool {
		t := info.TypeOf(e)
		if t == nil {
			return false
		}
		_, ok := t.Underlying().(*types.Chan)
		return ok
	}
	// comm statements of select clauses must not be rewritten as plain operations
	inComm := map[ast.Node]bool{}
	ast.Inspect(f, func(n ast.Node) bool {
		if cc, ok := n.(*ast.CommClause); ok && cc.Comm != nil {
			inComm[cc.Comm] = true
			switch c := cc.Comm.(type) {
			case *ast.ExprStmt:
				inComm[c.X] = true
			case *ast.AssignStmt:
				inComm[c.Rhs[0]] = true
			}
		}
		return true
	})
	tmp := 0
	fresh := func(prefix string) *ast.Ident { tmp++; return ast.NewIdent(fmt.Sprintf("vrt__%s%d", prefix, tmp)) }
	unparen := func(e ast.Expr) ast.Expr {
		for {
			pe, ok := e.(*ast.ParenExpr)
			if !ok {
				return e
			}
			e = pe.X
		}
	}

	astutil.Apply(f, func(c *astutil.Cursor) bool {
		n := c.Node()
		switch x := n.(type) {
		case *ast.GoStmt:
			needVrt = true
			sites++
			var stmts []ast.Stmt
			fn := fresh("f")
			stmts = append(stmts, define(fn, x.Call.Fun))
			var args []ast.Expr
			for _, a := range x.Call.Args {
				id := fresh("a")
				stmts = append(stmts, define(id, a))
				args = append(args, id)
			}
			inner := &ast.CallExpr{Fun: fn, Args: args, Ellipsis: x.Call.Ellipsis}
			lit := &ast.FuncLit{Type: &ast.FuncType{Params: &ast.FieldList{}}, Body: &ast.BlockStmt{List: []ast.Stmt{&ast.ExprStmt{X: inner}}}}
			stmts = append(stmts, &ast.ExprStmt{X: call(sel("vrt", "Go"), str(pos(x)), ast.NewIdent("true"), lit)})
			c.Replace(&ast.BlockStmt{List: stmts})
		case *ast.LabeledStmt:
			if _, ok := x.Stmt.(*ast.SelectStmt); ok {
				fail("labeled select at %s", pos(x))
			}
		}
		return true
	}, func(c *astutil.Cursor) bool {
		n := c.Node()
		if inComm[n] {
			return true
		}
		switch x := n.(type) {
		case *ast.SendStmt:
			needVrt = true
			sites++
			c.Replace(&ast.ExprStmt{X: call(sel("vrt", "Send"), x.Chan, x.Value)})
		case *ast.UnaryExpr:
			if x.Op == token.ARROW {
				needVrt = true
				sites++
				two := false
				switch par := c.Parent().(type) {
				case *ast.AssignStmt:
					two = len(par.Lhs) == 2 && len(par.Rhs) == 1
				case *ast.ValueSpec:
					two = len(par.Names) == 2 && len(par.Values) == 1
				}
				if two {
					c.Replace(call(sel("vrt", "Recv2"), x.X))
				} else {
					c.Replace(call(sel("vrt", "Recv"), x.X))
				}
			}
		case *ast.CallExpr:
			if id, ok := unparen(x.Fun).(*ast.Ident); ok && id.Name == "close" {
				if _, isBuiltin := info.Uses[id].(*types.Builtin); isBuiltin {
					needVrt = true
					sites++
					x.Fun = sel("vrt", "Close")
					return true
				}
			}
			if t := info.TypeOf(x.Fun); t != nil && isCancelFunc(t) && len(x.Args) == 0 {
				needVrt = true
				sites++
				c.Replace(call(sel("vrt", "Cancel"), x.Fun))
			}
		case *ast.RangeStmt:
			if isChan(x.X) {
				needVrt = true
				sites++
				okID := fresh("ok")
				var recv ast.Stmt
				switch {
				case x.Key == nil:
					recv = &ast.AssignStmt{Lhs: []ast.Expr{ast.NewIdent("_"), okID}, Tok: token.DEFINE, Rhs: []ast.Expr{call(sel("vrt", "Recv2"), x.X)}}
				case x.Tok == token.DEFINE:
					recv = &ast.AssignStmt{Lhs: []ast.Expr{x.Key, okID}, Tok: token.DEFINE, Rhs: []ast.Expr{call(sel("vrt", "Recv2"), x.X)}}
				default:
					v := fresh("v")
					recv = &ast.BlockStmt{List: []ast.Stmt{}}
					_ = v
					fail("range with '=' over a channel at %s", pos(x))
				}
				brk := &ast.IfStmt{Cond: &ast.UnaryExpr{Op: token.NOT, X: okID}, Body: &ast.BlockStmt{List: []ast.Stmt{&ast.BranchStmt{Tok: token.BREAK}}}}
				body := append([]ast.Stmt{recv, brk}, x.Body.List...)
				var keep ast.Stmt
				if x.Key != nil && x.Tok == token.DEFINE {
					// keep "declared and not used" away when the body ignores the variable
					keep = &ast.AssignStmt{Lhs: []ast.Expr{ast.NewIdent("_")}, Tok: token.ASSIGN, Rhs: []ast.Expr{x.Key}}
					body = append([]ast.Stmt{recv, brk, keep}, x.Body.List...)
				}
				c.Replace(&ast.ForStmt{Body: &ast.BlockStmt{List: body}})
			}
		case *ast.SelectStmt:
			hasDefault := false
			for _, cl := range x.Body.List {
				if cl.(*ast.CommClause).Comm == nil {
					hasDefault = true
				}
			}
			needVrt = true
			sites++
			if hasDefault {
				for _, cl := range x.Body.List {
					cc := cl.(*ast.CommClause)
					switch cm := cc.Comm.(type) {
					case *ast.SendStmt:
						cc.Body = append([]ast.Stmt{&ast.ExprStmt{X: call(sel("vrt", "WokeS"), cm.Chan)}}, cc.Body...)
					case *ast.ExprStmt:
						cc.Body = append([]ast.Stmt{&ast.ExprStmt{X: call(sel("vrt", "WokeR"), unparen(cm.X).(*ast.UnaryExpr).X)}}, cc.Body...)
					case *ast.AssignStmt:
						cc.Body = append([]ast.Stmt{&ast.ExprStmt{X: call(sel("vrt", "WokeR"), unparen(cm.Rhs[0]).(*ast.UnaryExpr).X)}}, cc.Body...)
					}
				}
				pt := &ast.ExprStmt{X: call(sel("vrt", "Point"), str("select "+pos(x)))}
				c.Replace(&ast.BlockStmt{List: []ast.Stmt{pt, x}})
				return true
			}
			// blocking select -> { ch temps; switch i, v, ok := vrt.Select(cases...); i { case k: ... } }
			var pre []ast.Stmt
			var cases []ast.Expr
			var clauses []ast.Stmt
			iID, vID, okID := fresh("i"), fresh("v"), fresh("ok")
			for k, cl := range x.Body.List {
				cc := cl.(*ast.CommClause)
				var body []ast.Stmt
				switch cm := cc.Comm.(type) {
				case *ast.SendStmt:
					ch, val := fresh("c"), fresh("x")
					pre = append(pre, define(ch, cm.Chan), define(val, cm.Value))
					cases = append(cases, call(sel("vrt", "SendCase"), ch, val))
				case *ast.ExprStmt:
					ch := fresh("c")
					pre = append(pre, define(ch, unparen(cm.X).(*ast.UnaryExpr).X))
					cases = append(cases, call(sel("vrt", "RecvCase"), ch))
				case *ast.AssignStmt:
					ch := fresh("c")
					pre = append(pre, define(ch, unparen(cm.Rhs[0]).(*ast.UnaryExpr).X))
					cases = append(cases, call(sel("vrt", "RecvCase"), ch))
					rhs := []ast.Expr{call(sel("vrt", "RecvVal"), ch, vID)}
					if len(cm.Lhs) == 2 {
						rhs = append(rhs, okID)
					}
					body = append(body, &ast.AssignStmt{Lhs: cm.Lhs, Tok: cm.Tok, Rhs: rhs})
					if cm.Tok == token.DEFINE {
						for _, l := range cm.Lhs {
							if id, ok := l.(*ast.Ident); ok && id.Name != "_" {
								body = append(body, &ast.AssignStmt{Lhs: []ast.Expr{ast.NewIdent("_")}, Tok: token.ASSIGN, Rhs: []ast.Expr{ast.NewIdent(id.Name)}})
							}
						}
					}
				}
				body = append(body, cc.Body...)
				clauses = append(clauses, &ast.CaseClause{List: []ast.Expr{&ast.BasicLit{Kind: token.INT, Value: strconv.Itoa(k)}}, Body: body})
			}
			init := &ast.AssignStmt{Lhs: []ast.Expr{iID, vID, okID}, Tok: token.DEFINE, Rhs: []ast.Expr{call(sel("vrt", "Select"), cases...)}}
			useAll := &ast.AssignStmt{Lhs: []ast.Expr{ast.NewIdent("_"), ast.NewIdent("_")}, Tok: token.ASSIGN, Rhs: []ast.Expr{vID, okID}}
			sw := &ast.SwitchStmt{Tag: iID, Body: &ast.BlockStmt{List: clauses}}
			c.Replace(&ast.BlockStmt{List: append(pre, init, useAll, sw)})
		}
		return true
	})

	for _, imp := range f.Imports {
		path, _ := strconv.Unquote(imp.Path.Value)
		if s, ok := shim[path]; ok {
			imp.Path.Value = strconv.Quote(s[0])
			if imp.Name == nil {
				imp.Name = ast.NewIdent(s[1])
			}
			sites++
		}
		if path == "reflect" || path == "unsafe" {
			// reflect-based channel operations / unsafe tricks on sync types are not modelled; allowed but noted
		}
	}
	if needVrt {
		astutil.AddImport(p.Fset, f, modPath+"/vrt")
	}
	return sites
}

// perturb inserts vrt.Perturb() before every statement of every function body (race engine).
func perturb(p *packages.Package, f *ast.File) int {
	sites := 0
	var visit func(list []ast.Stmt) []ast.Stmt
	mk := func() ast.Stmt { return &ast.ExprStmt{X: call(sel("vperturb", "P"))} }
	visit = func(list []ast.Stmt) []ast.Stmt {
		var out []ast.Stmt
		for _, s := range list {
			switch s.(type) {
			case *ast.DeclStmt, *ast.LabeledStmt, *ast.EmptyStmt:
				out = append(out, s)
				continue
			}
			out = append(out, mk(), s)
			sites++
		}
		return out
	}
	skip := map[*ast.BlockStmt]bool{}
	ast.Inspect(f, func(n ast.Node) bool {
		switch x := n.(type) {
		case *ast.SwitchStmt:
			skip[x.Body] = true
		case *ast.TypeSwitchStmt:
			skip[x.Body] = true
		case *ast.SelectStmt:
			skip[x.Body] = true
		case *ast.BlockStmt:
			if skip[x] {
				return true
			}
			x.List = visit(x.List)
		case *ast.CaseClause:
			x.Body = visit(x.Body)
		case *ast.CommClause:
			x.Body = visit(x.Body)
		}
		return true
	})
	if sites > 0 {
		astutil.AddNamedImport(p.Fset, f, "vperturb", modPath+"/vrace/vperturb")
	}
	return sites
}
