#!/bin/bash
# tools/seedhead.sh <seeded-name> : confirm a seeded change on a scratch worktree of /repo's current HEAD (/tmp/seedport)
export GOFLAGS=-mod=mod GOPROXY=off
N=$1; S=/verif/seeded/$N; W=/tmp/seedport
cd $W || exit 1
git checkout -q -- . ; git clean -fdq
DEMO=$(grep "go test" $S/demo_cmd.txt | head -1 | sed 's/^.*&& *//')
git apply $S/patch.diff || { echo "patch does not apply"; exit 1; }
go build ./... || { echo "does not compile"; exit 1; }
s=0; for i in 1 2 3; do timeout 300 go test -vet=off -count=1 -timeout 4m ./... 2>&1 | grep -q "^FAIL\|--- FAIL" && s=$((s+1)); done; echo "suite with change: $s/3 runs failed"
cp $S/zz_seed_demo_test.go .
d=0; for i in 1 2 3; do (timeout 150 bash -c "$DEMO") > /tmp/seedout/demo_with.log 2>&1 || d=$((d+1)); done; echo "demo with change: failed $d/3"
git apply -R $S/patch.diff
d=0; for i in 1 2 3; do (timeout 150 bash -c "$DEMO") > /tmp/seedout/demo_without.log 2>&1 || d=$((d+1)); done; echo "demo without change: failed $d/3"
git checkout -q -- . ; git clean -fdq
