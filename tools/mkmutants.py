#!/usr/bin/env python3
"""Creates hand-written sensitivity mutants (DESIGN.md section 10, 'S:' lists) as patches against /repo HEAD in /verif/mutants/.
Each entry: (name, [target properties], file, old, new)."""
import subprocess, os, sys, json
W = "/tmp/seedrun"
M = [
 ("m01-dispatcher-runs-cancelled-jobs", ["C01", "C10"], "worker.go",
  "\tif !j.markProcessing() {\n\t\treturn nil\n\t}\n", "\tj.markProcessing()\n"),
 ("m02-limit-off-by-one", ["C02"], "worker.go",
  "\tif reserved > w.concurrency.Load() {\n\t\treturn nil\n\t}\n", "\tif reserved > w.concurrency.Load()+1 {\n\t\treturn nil\n\t}\n",
  "w.curProcessing.Load() < w.concurrency.Load() && w.queues.Len() > 0 {", "w.curProcessing.Load() <= w.concurrency.Load() && w.queues.Len() > 0 {"),
 ("m03-no-renotify-after-completion", ["C03", "C01"], "worker.go",
  "\t\tw.metrics.incCompleted()\n\t\tw.notifyToPullNextJobs()\n", "\t\tw.metrics.incCompleted()\n"),
 ("m04-blocking-error-send", ["C03"], "worker.go",
  "\tselect {\n\tcase w.errorChan <- err:\n\tdefault:\n\t}\n", "\tif w.errorChan != nil {\n\t\tw.errorChan <- err\n\t}\n"),
 ("m05-heap-no-tiebreak", ["C04"], "internal/queues/heap.go",
  "\tif pq.items[i].Priority == pq.items[j].Priority {\n\t\treturn pq.items[i].Index < pq.items[j].Index\n\t}\n", ""),
 ("m06-second-segment-skips-one", ["C04", "C01", "C17"], "internal/queues/queue.go",
  "\tif q.readChunk.Next != nil {\n\t\tq.readChunk = q.readChunk.Next\n", "\tif q.readChunk.Next != nil {\n\t\tq.readChunk = q.readChunk.Next\n\t\tq.readChunk.NextReadIndex = min(1, q.readChunk.NextWriteIndex-1)\n"),
 ("m08-broadcast-without-mutex", ["C06"], "worker.go",
  "\tw.mx.Lock()\n\tw.waiters.Broadcast()\n\tw.mx.Unlock()\n", "\tw.waiters.Broadcast()\n"),
 ("m09-no-release-after-pass", ["C06"], "worker.go",
  "\t\t\tw.releaseWaiters(w.curProcessing.Load())\n", ""),
 ("m10-errworker-without-safe", ["C07"], "main.go",
  "\t\tpanicErr = utils.WithSafe(\"err-worker\", func() {\n\t\t\terr = wf(ij)\n\t\t})\n", "\t\terr = wf(ij)\n"),
 ("m11-batch-close-on-count-zero", ["C08"], "group_job.go",
  "\tif gj.wgc.Done() {\n\t\tgj.Response.Close()\n\t}\n", "\tgj.wgc.Done()\n\n\tif gj.wgc.Count() == 0 {\n\t\tgj.Response.Close()\n\t}\n"),
 ("m12-no-status-recheck-after-reserve", ["C09", "C06"], "worker.go",
  "\tif w.IsPaused() || w.IsStopped() {\n\t\treturn nil\n\t}\n", ""),
 ("m13-purge-does-not-close", ["C10", "C05"], "queue.go",
  "\t\tif j, ok := val.(io.Closer); ok {\n\t\t\tj.Close()\n\t\t}\n", "\t\t_ = val\n"),
 ("m14-plain-dequeue-for-ack-queues", ["C11"], "worker.go",
  "\tcase IAcknowledgeable:\n\t\tv, ok, ackId = q.DequeueWithAckId()\n", "\tcase IAcknowledgeable:\n\t\tv, ok = queue.Dequeue()\n\t\t_ = q\n"),
 ("m14b-ack-at-dispatch", ["C11"], "worker.go",
  "\tif ackId != \"\" {\n\t\tj.setAckId(ackId)\n\t}\n", "\tif ackId != \"\" {\n\t\tj.setAckId(ackId)\n\t\tj.ack()\n\t}\n"),
 ("m15-id-trimmed-on-decode", ["C12"], "job.go",
  "\t\tId: view.Id,\n", "\t\tId: strings.TrimSpace(view.Id),\n", "import (\n", "import (\n\t\"strings\"\n"),
 ("m16-notification-not-counted", ["C13"], "worker_binder.go",
  "\t\twb.worker.Metrics().incSubmitted()\n\t\twb.worker.notifyToPullNextJobs()\n", "\t\twb.worker.notifyToPullNextJobs()\n"),
 ("m17-resume-from-stopped", ["C14"], "worker.go",
  "\tif w.IsStopped() {\n\t\treturn ErrNotRunningWorker\n\t}\n\n\tif w.status.Load() == initiated {", "\tif w.status.Load() == initiated {"),
 ("m18-minlen-includes-equal-later", ["C15"], "internal/helpers/manager.go",
  "\t\tif l > 0 && (minLen == -1 || l < minLen) {", "\t\tif l > 0 && (minLen == -1 || l > minLen) {"),
 ("m18b-roundrobin-cursor-stuck-on-hit", ["C15"], "internal/helpers/manager.go",
  "\t\titem := m.items[m.roundRobinIndex]\n\t\tm.roundRobinIndex = (m.roundRobinIndex + 1) % len(m.items)\n\n\t\tif item.Len() > 0 {\n\t\t\treturn item, nil\n\t\t}\n",
  "\t\titem := m.items[m.roundRobinIndex]\n\n\t\tif item.Len() > 1 {\n\t\t\treturn item, nil\n\t\t}\n\n\t\tm.roundRobinIndex = (m.roundRobinIndex + 1) % len(m.items)\n\n\t\tif item.Len() > 0 {\n\t\t\treturn item, nil\n\t\t}\n"),
 ("m19-finished-stored-before-run", ["C16"], "worker.go",
  "\t\tw.workerFunc(j)\n\n\t\tj.changeStatus(finished)\n", "\t\tj.changeStatus(finished)\n\t\tw.workerFunc(j)\n\n"),
 ("m20-persistent-add-counts-twice", ["C17"], "persistent.go",
  "\tq.w.Metrics().incSubmitted()\n", "\tq.w.Metrics().incSubmitted()\n\tq.w.Metrics().incSubmitted()\n"),
 ("m20b-completed-not-counted-on-error", ["C17"], "worker.go",
  "\t\tif err := j.Close(); err != nil {\n\t\t\tw.sendError(err)\n\t\t}\n", "\t\tif err := j.Close(); err != nil {\n\t\t\tw.sendError(err)\n\t\t\tw.metrics.incCompleted()\n\t\t}\n"),
 ("m21-remover-never-expires", ["C18"], "worker.go",
  "node.Value.GetLastUsed().Add(interval).Before(time.Now()) && w.pool.Remove(node)", "node.Value.GetLastUsed().Add(interval).After(time.Now()) && w.pool.Remove(node)"),
 ("m22-stop-keeps-idle-workers", ["C18"], "worker.go",
  "\tw.stopTickers()\n\tw.closeChannels()\n\n\tw.stopAndRemoveAllWorkers()\n\n\treturn nil\n}", "\tw.stopTickers()\n\tw.closeChannels()\n\n\treturn nil\n}"),
 ("m23-popback-without-list-lock", ["C19"], "internal/linkedlist/linkedlist.go",
  "func (l *List[T]) PopBack() *Node[T] {\n\tl.mx.Lock()\n\tdefer l.mx.Unlock()\n", "func (l *List[T]) PopBack() *Node[T] {\n"),
 ("m23b-metrics-plain-counter", ["C19"], "metrics.go",
  "func (m *metrics) incCompleted() {\n\tm.completed.Add(1)\n}", "func (m *metrics) incCompleted() {\n\tm.completed.Store(m.completed.Load() + 1)\n}"),
 ("m24-wait-returns-before-result", ["C05", "C07"], "job.go",
  "func (rj *resultJob[T, R]) Close() error {\n\tif err := rj.job.Close(); err != nil {\n\t\treturn err\n\t}\n\n\treturn rj.Response.Close()\n}", "func (rj *resultJob[T, R]) Close() error {\n\tdefer rj.Response.Close()\n\n\treturn rj.job.Close()\n}"),
 ("m25-tunepool-no-notify-on-grow", ["C03", "C18"], "worker.go",
  "\tif safeConcurrency > oldConcurrency {\n\t\tw.notifyToPullNextJobs()\n\t\treturn nil\n\t}", "\tif safeConcurrency > oldConcurrency {\n\t\treturn nil\n\t}"),
 ("m26-restart-keeps-paused", ["C14", "C09"], "worker.go",
  "\tdefer w.goListenToContext()\n\tdefer w.notifyToPullNextJobs()\n\tdefer w.status.Store(running)\n", "\tdefer w.goListenToContext()\n\tdefer w.notifyToPullNextJobs()\n\tdefer w.status.CompareAndSwap(initiated, running)\n"),
]
def sh(cmd, **kw):
    return subprocess.run(cmd, shell=True, capture_output=True, text=True, **kw)
head = sh("git -C /repo rev-parse HEAD").stdout.strip()
sh("git -C %s checkout -q -- . && git -C %s clean -fdq && git -C %s checkout -q --detach %s" % (W, W, W, head))
index = []
for m in M:
    name, props, f = m[0], m[1], m[2]
    pairs = list(zip(m[3::2], m[4::2]))
    p = os.path.join(W, f)
    s = open(p).read()
    ok = True
    for old, new in pairs:
        if s.count(old) != 1:
            print("SKIP %s: pattern count %d in %s: %r" % (name, s.count(old), f, old[:50])); ok = False; break
        s = s.replace(old, new)
    if not ok:
        continue
    open(p, "w").write(s)
    sh("cd %s && gofmt -w %s" % (W, f))
    b = sh("cd %s && GOFLAGS=-mod=mod GOPROXY=off go build ./... 2>&1" % W)
    if b.returncode != 0:
        print("SKIP %s: does not build: %s" % (name, b.stdout[-300:])); sh("git -C %s checkout -q -- ." % W); continue
    d = sh("git -C %s diff" % W).stdout
    open("/verif/mutants/%s.patch" % name, "w").write(d)
    fails = 0
    for i in range(2):
        t = sh("cd %s && GOFLAGS=-mod=mod GOPROXY=off timeout 300 go test -vet=off -count=1 -timeout 4m ./... 2>&1" % W)
        if "FAIL" in t.stdout or t.returncode != 0:
            fails += 1
    index.append({"name": name, "targets": props, "file": f, "suite_failed_runs": fails, "base": head})
    print("%s targets=%s suite_failed=%d/2" % (name, props, fails))
    sh("git -C %s checkout -q -- ." % W)
json.dump(index, open("/verif/mutants/index.json", "w"), indent=1)
