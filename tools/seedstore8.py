#!/usr/bin/env python3
"""tools/seedstore7.py <id> <name> <check> [check...] : store a verified batch-4 seeded change under /verif/seeded/<name>/"""
import json, os, shutil, sys
pid, name, checks = sys.argv[1], sys.argv[2], sys.argv[3:]
src = "/tmp/seedout8/" + pid
dst = "/verif/seeded/" + name
os.makedirs(dst, exist_ok=True)
for f in ("patch.diff", "demo_cmd.txt"):
    shutil.copy(os.path.join(src, f), os.path.join(dst, f))
for f in os.listdir(src):
    if f.endswith("_test.go"):
        shutil.copy(os.path.join(src, f), os.path.join(dst, f))
am = json.load(open(os.path.join(src, "meta.json")))
json.dump(am, open(os.path.join(dst, "agent_meta.json"), "w"), indent=1)
ver = open("/tmp/seedout8/%s.verify.log" % pid).read().strip().splitlines()
meta = {"name": name, "property": pid, "base_commit": "12c8574", "summary": am.get("summary"), "needs": am.get("needs"),
        "files_changed": am.get("files_changed"),
        "origin": "written by an independent sub-agent (batch 8) that saw only the property text and its own scratch worktree",
        "checks": checks, "verified_in_worktree": [l for l in ver if "suite with" in l or "demo with" in l]}
json.dump(meta, open(os.path.join(dst, "meta.json"), "w"), indent=1)
print("stored", dst)
