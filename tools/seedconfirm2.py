#!/usr/bin/env python3
"""Confirmation of every seeded change against /repo's current HEAD, recorded in seeded/<name>/meta.json ("confirmed_on_head").
 phase A (parallel, scratch worktrees /tmp/seedportN at HEAD): patch applies, builds, unedited suite passes with it (2 runs; a third if one failed),
         demonstration fails with it (3 runs) and passes without it (3 runs);
 phase B (sequential, the registered way): git -C /repo apply <patch>; ./check <id> --tier quick for the first listed check (all with --all-checks);
         git -C /repo checkout -- .   Nothing else may use /repo while phase B runs.
usage: tools/seedconfirm2.py A [workers] | B [--all-checks] [name-substring ...]"""
import json, subprocess, sys, os, glob, time, threading, queue
ENV = "GOFLAGS=-mod=mod GOPROXY=off"
def sh(cmd, cwd=None, timeout=None):
    try:
        return subprocess.run(cmd, shell=True, capture_output=True, text=True, cwd=cwd, timeout=timeout)
    except subprocess.TimeoutExpired as e:
        class R: returncode = 124; stdout = ""; stderr = "timeout"
        return R()
head = sh("git -C /repo rev-parse --short HEAD").stdout.strip()
names = [os.path.basename(d.rstrip("/")) for d in sorted(glob.glob("/verif/seeded/*/"))]
OUT = "/tmp/vw/confirm"; os.makedirs(OUT, exist_ok=True)
def phaseA(name, W):
    d = "/verif/seeded/%s/" % name
    demo = [l for l in open(d + "demo_cmd.txt").read().splitlines() if "go test" in l][0].split("&&")[-1].strip()
    sh("git checkout -q -- . && git clean -fdq && git checkout -q --detach %s" % head, cwd=W)
    res = {"head": head, "when": time.strftime("%Y-%m-%d %H:%M:%S")}
    a = sh("git apply %spatch.diff" % d, cwd=W)
    res["patch_applies"] = a.returncode == 0
    if a.returncode == 0:
        res["builds"] = sh(ENV + " go build ./...", cwd=W).returncode == 0
        runs, fails = 0, 0
        for i in range(3):
            if i == 2 and fails == 0:
                break
            runs += 1
            if sh(ENV + " go test -vet=off -count=1 -timeout 4m ./...", cwd=W, timeout=400).returncode != 0:
                fails += 1
        res["suite_runs_failed_with_change"] = "%d/%d" % (fails, runs)
        for f in [f for f in os.listdir(d) if f.endswith("_test.go")]:
            target = "."
            if "./internal/queues" in demo: target = "internal/queues"
            elif "./internal/helpers" in demo: target = "internal/helpers"
            sh("cp %s%s %s/%s/" % (d, f, W, target))
        res["demo_failed_with_change"] = "%d/3" % sum(1 for i in range(3) if sh(demo, cwd=W, timeout=400).returncode != 0)
        sh("git apply -R %spatch.diff" % d, cwd=W)
        res["demo_failed_without_change"] = "%d/3" % sum(1 for i in range(3) if sh(demo, cwd=W, timeout=400).returncode != 0)
    sh("git checkout -q -- . && git clean -fdq", cwd=W)
    json.dump(res, open("%s/%s.A.json" % (OUT, name), "w"))
    print("A", name, json.dumps(res), flush=True)
if sys.argv[1] == "A":
    nw = int(sys.argv[2]) if len(sys.argv) > 2 else 3
    q = queue.Queue()
    for n in names:
        if not os.path.exists("%s/%s.A.json" % (OUT, n)) or json.load(open("%s/%s.A.json" % (OUT, n))).get("head") != head:
            q.put(n)
    def worker(i):
        W = "/tmp/seedport%d" % i
        if not os.path.exists(W):
            sh("git -C /repo worktree add --detach %s HEAD" % W)
        while True:
            try: n = q.get_nowait()
            except queue.Empty: return
            phaseA(n, W)
    ts = [threading.Thread(target=worker, args=(i,)) for i in range(1, nw + 1)]
    [t.start() for t in ts]; [t.join() for t in ts]
else:
    allc = "--all-checks" in sys.argv
    sel = [a for a in sys.argv[2:] if not a.startswith("--")]
    assert sh("git -C /repo status --porcelain").stdout.strip() == "", "/repo working tree is not clean"
    for name in names:
        if sel and not any(s in name for s in sel):
            continue
        d = "/verif/seeded/%s/" % name
        meta = json.load(open(d + "meta.json"))
        res = json.load(open("%s/%s.A.json" % (OUT, name))) if os.path.exists("%s/%s.A.json" % (OUT, name)) else {"head": head}
        checks = {}
        todo = meta.get("checks", []) if allc else meta.get("checks", [])[:1]
        if todo and sh("git -C /repo apply %spatch.diff" % d).returncode == 0:
            try:
                for p in todo:
                    t0 = time.time()
                    r = sh("cd /verif && VERIF_EVIDENCE_DIR=/tmp/vw/evid_confirm VERIF_FOUND_DIR=/tmp/vw/found_confirm ./check %s --tier quick" % p, timeout=1500)
                    viol = [l for l in r.stdout.splitlines() if l.startswith("VIOLATION")]
                    checks[p] = {"exit": r.returncode, "violation_lines": len(viol), "seconds": round(time.time() - t0)}
            finally:
                sh("git -C /repo checkout -- .")
        res["checks_quick_on_repo"] = checks
        meta["confirmed_on_head"] = res
        json.dump(meta, open(d + "meta.json", "w"), indent=1)
        print("B", name, json.dumps(checks), flush=True)
    assert sh("git -C /repo status --porcelain").stdout.strip() == ""
