#!/usr/bin/env python3
"""Final confirmation of every seeded change against /repo's current HEAD, recorded in seeded/<name>/meta.json.
 1. scratch worktree /tmp/seedport at HEAD: patch applies, builds, unedited suite passes with it (2 runs),
    demonstration fails with it (3 runs) and passes without it (3 runs);
 2. the registered way: git -C /repo apply <patch>; ./check <id> --tier quick for the listed checks; git -C /repo checkout -- .
Nothing else may use /repo while step 2 runs.  usage: tools/seedconfirm.py [name-substring ...]"""
import json, subprocess, sys, os, glob, time
W = "/tmp/seedport"
ENV = "GOFLAGS=-mod=mod GOPROXY=off"
def sh(cmd, cwd=None, timeout=None):
    try:
        return subprocess.run(cmd, shell=True, capture_output=True, text=True, cwd=cwd, timeout=timeout)
    except subprocess.TimeoutExpired as e:
        class R: returncode = 124; stdout = (e.stdout or b"").decode() if isinstance(e.stdout, bytes) else (e.stdout or ""); stderr = "timeout"
        return R()
head = sh("git -C /repo rev-parse --short HEAD").stdout.strip()
assert sh("git -C /repo status --porcelain").stdout.strip() == "", "/repo working tree is not clean"
sel = sys.argv[1:]
for d in sorted(glob.glob("/verif/seeded/*/")):
    name = os.path.basename(d.rstrip("/"))
    if sel and not any(s in name for s in sel):
        continue
    meta = json.load(open(d + "meta.json"))
    demo = [l for l in open(d + "demo_cmd.txt").read().splitlines() if "go test" in l][0]
    demo = demo.split("&&")[-1].strip()
    sh("git checkout -q -- . && git clean -fdq && git checkout -q --detach %s" % head, cwd=W)
    res = {"head": head, "when": time.strftime("%Y-%m-%d %H:%M:%S")}
    a = sh("git apply %spatch.diff" % d, cwd=W)
    res["patch_applies"] = a.returncode == 0
    if a.returncode == 0:
        res["builds"] = sh(ENV + " go build ./...", cwd=W).returncode == 0
        fails = 0
        for i in range(2):
            t = sh(ENV + " go test -vet=off -count=1 -timeout 4m ./...", cwd=W, timeout=400)
            if t.returncode != 0:
                fails += 1
        res["suite_runs_failed_with_change"] = "%d/2" % fails
        demofile = [f for f in os.listdir(d) if f.endswith("_test.go")]
        for f in demofile:
            # the demo belongs to the package directory named in its agent_meta / demo command
            target = "."
            if "./internal/queues" in demo:
                target = "internal/queues"
            elif "./internal/helpers" in demo:
                target = "internal/helpers"
            sh("cp %s%s %s/%s/" % (d, f, W, target))
        fw = sum(1 for i in range(3) if sh(demo, cwd=W, timeout=300).returncode != 0)
        res["demo_failed_with_change"] = "%d/3" % fw
        sh("git apply -R %spatch.diff" % d, cwd=W)
        fo = sum(1 for i in range(3) if sh(demo, cwd=W, timeout=300).returncode != 0)
        res["demo_failed_without_change"] = "%d/3" % fo
    sh("git checkout -q -- . && git clean -fdq", cwd=W)
    # step 2: the registered way, on /repo itself
    checks = {}
    a = sh("git -C /repo apply %spatch.diff" % d)
    if a.returncode == 0:
        try:
            for p in meta.get("checks", []):
                t0 = time.time()
                r = sh("cd /verif && VERIF_EVIDENCE_DIR=/tmp/vw/evid_confirm VERIF_FOUND_DIR=/tmp/vw/found_confirm ./check %s --tier quick" % p, timeout=1500)
                viol = [l for l in r.stdout.splitlines() if l.startswith("VIOLATION")]
                checks[p] = {"exit": r.returncode, "violation_lines": len(viol), "seconds": round(time.time() - t0)}
        finally:
            sh("git -C /repo checkout -- .")
    res["checks_quick_on_repo"] = checks
    meta["confirmed_on_head"] = res
    json.dump(meta, open(d + "meta.json", "w"), indent=1)
    print(name, json.dumps(res), flush=True)
assert sh("git -C /repo status --porcelain").stdout.strip() == ""
