#!/bin/bash
# tools/seedverify.sh <id> : confirm an agent-made seeded change in its own worktree (/tmp/seed/<id>)
export GOFLAGS=-mod=mod GOPROXY=off
P=$1; W=/tmp/seed8/$P; O=/tmp/seedout8/$P
cd $W || exit 1
DEMO=$(cat $O/demo_cmd.txt | grep -v '^#' | grep "go test" | head -1 | sed 's/^.*&& *//')
[ -z "$DEMO" ] && DEMO="go test -vet=off -count=1 -run 'SeedDemo' ."
echo "demo: $DEMO"
git diff -- . ':!*_test.go' > /tmp/seedout8/$P/verify.diff
cmp -s /tmp/seedout8/$P/verify.diff $O/patch.diff && echo "worktree diff == patch.diff" || echo "WARNING: worktree diff differs from patch.diff"
demofiles=$(git status --short | grep '^??' | awk '{print $2}')
echo "untracked: $demofiles"
# 1. suite with change (demo files moved aside)
mkdir -p /tmp/seedout8/$P/aside; for f in $demofiles; do mv $f /tmp/seedout8/$P/aside/$(echo $f | tr '/' '_'); done
s=0; for i in 1 2; do timeout 300 go test -vet=off -count=1 -timeout 4m ./... 2>&1 | grep -q "^FAIL\|--- FAIL" && s=$((s+1)); done; echo "suite with change: $s/2 runs failed"
for f in $demofiles; do cp /tmp/seedout8/$P/aside/$(echo $f | tr '/' '_') $f; done
# 2. demo with change
d=0; for i in 1 2 3; do (timeout 300 bash -c "$DEMO") > /tmp/seedout8/$P/demo_with.log 2>&1 || d=$((d+1)); done; echo "demo with change: failed $d/3"
# 3. demo without change
git apply -R $O/patch.diff || { echo "cannot revert"; exit 1; }
d=0; for i in 1 2 3; do (timeout 300 bash -c "$DEMO") > /tmp/seedout8/$P/demo_without.log 2>&1 || d=$((d+1)); done; echo "demo without change: failed $d/3"
git apply $O/patch.diff
