#!/bin/bash
# tools/soak.sh <from> <to> [tier]: run the cheap coop checks for a range of seeds; log only failures and a progress line per seed
cd /verif
for S in $(seq $1 $2); do
  for p in C01 C02 C03 C05 C06 C07 C08 C09 C10 C11 C12 C13 C14 C15 C16 C17 C18; do
    out=$(VERIF_SEED=$S VERIF_EVIDENCE_DIR=/tmp/vw/evid_soak VERIF_FOUND_DIR=/tmp/vw/found_soak ./check $p --tier ${3:-quick} 2>&1); rc=$?
    if [ $rc -ne 0 ]; then echo "FAIL $p seed=$S rc=$rc $(echo "$out" | grep -E 'VIOLATION|^check ' | head -3 | tr '\n' ' ')"; fi
  done
  echo "seed $S done $(date +%H:%M:%S)"
done
