#!/bin/bash
# developer loop: tools/dev.sh build | run <prop> <checks> <seed> [tier] | replay <prop> <file>
export GOFLAGS=-mod=mod GOPROXY=off
D=${VW:-/tmp/vw/t1}
case "$1" in
build) rm -rf $D && /verif/check --prep ${2:-coop} $D >/dev/null && cd $D && go test -c -o t.test ./${3:-vharness} && echo BUILT;;
run) P=$2; O=/tmp/vw/out_$P; rm -rf $O; mkdir -p $O; cd $D/vharness && GOMAXPROCS=1 VERIF_KNOWN=/verif/known_findings.json VERIF_PROP=$P VERIF_TIER=${5:-quick} VERIF_OUT=$O timeout ${TMO:-600} ../t.test -test.run '^TestProp$' -test.timeout 0 -rapid.checks ${3:-1000} -rapid.seed ${4:-1} -rapid.nofailfile -rapid.shrinktime ${SHR:-10s} 2>&1 | grep -E "^(---|ok|PASS|FAIL|panic|fatal|VRT)|failed after|OK, passed" | cut -c1-900 | head -${HEAD:-8}
  python3 - $O <<'PY'
import json,sys,os
o=sys.argv[1]
s=os.path.join(o,'summary.json')
if os.path.exists(s):
    d=json.load(open(s)); print({k:d[k] for k in ('evaluations','inconclusive','verdicts','set_aside','known')}, 'nontrivial', len(d['hashes'])); print('classes',d['classes'])
v=os.path.join(o,'violation.json')
if os.path.exists(v):
    d=json.load(open(v)); 
    for x in d['violations'][:4]: print('VIOL',x['property'],x['oracle'],x['witness'][:700])
    print('case', json.dumps({k:d[k] for k in ('config','clients','schedule')})[:1500])
PY
;;
replay) cd $D/vharness && GOMAXPROCS=1 VERIF_KNOWN=/verif/known_findings.json VERIF_PROP=$2 VERIF_OUT=/tmp/vw VERIF_VERBOSE=1 VERIF_REPLAY=$3 ../t.test -test.run '^TestReplay$' -test.v 2>&1 | cut -c1-${W:-330};;
esac
