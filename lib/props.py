# Per-property check specifications used by ./check
def coop(test, rule, quick=(4, 5000), thorough=(16, 40000), level="exploration", **kw):
    d = {"engine": "coop", "pkg": "vharness", "test": test, "replay_test": "TestReplay",
         "shards": {"quick": quick[0], "thorough": thorough[0]},
         "checks": {"quick": quick[1], "thorough": thorough[1]},
         "wall": {"quick": 600, "thorough": 3000},
         "level": level, "rule": rule, "death_is_violation": kw.pop("death_is_violation", False),
         "assumptions": ["coop runtime vrt and its sync/atomic/time shims are faithful (DESIGN.md 3.2, 8)",
                         "instrumenter rewrites every synchronisation operation of the library",
                         "scheduling points are synchronisation operations only (data races are C19's job)"]}
    d.update(kw)
    return d

def seq(test, quick=(4, 800), thorough=(16, 6000), **kw):
    d = {"engine": "seq", "pkg": "vseq", "test": test, "replay_test": "TestReplay",
         "shards": {"quick": quick[0], "thorough": thorough[0]},
         "checks": {"quick": quick[1], "thorough": thorough[1]},
         "wall": {"quick": 600, "thorough": 3000}}
    d.update(kw)
    return d

PROPS = {}

R = "cases are rapid-generated (configuration x client program x schedule); distinct = distinct 64-bit hash of the abstracted event history; non-trivial = "

PROPS["C01"] = coop("TestProp", R + ">=2 jobs outstanding while a control call, cancel, purge or idle-expiry tick happens", quick=(4, 2500), thorough=(16, 20000))
PROPS["C02"] = coop("TestProp", R + "the pool was saturated at a quiescent point and a lifecycle/TunePool/Bind call happened")
PROPS["C03"] = coop("TestProp", R + "a quiescent point had pending jobs with a saturated pool, or a TunePool/cancel/pause overlapped outstanding jobs", death_is_violation=True)
PROPS["C05"] = coop("TestProp", R + ">=2 waiters on one handle or a waiter parked before dispatch")
PROPS["C06"] = coop("TestProp", R + "a barrier call started while an accepted job had not finished, or a PauseAndWait/Stop was issued")
PROPS["C07"] = coop("TestProp", R + ">=2 different outcome kinds (value/error/panic) were executed in the episode")
PROPS["C08"] = coop("TestProp", R + "an empty batch, a rejected/purged item, or >=2 items executed with concurrency >=2")
PROPS["C09"] = coop("TestProp", R + "a Pause/PauseAndWait/Stop returned while >=1 accepted job was still pending", quick=(4, 8000), thorough=(16, 40000))
PROPS["C10"] = coop("TestProp", R + "a Close overlapped dispatch of the same job, a Close returned nil, or a Purge ran with >=2 jobs")
PROPS["C16"] = coop("TestProp", R + "a job was dispatched before its Add returned, or >=2 status samples were taken")
PROPS["C13"] = coop("TestProp", R + ">=2 consumers compete on one adapter, or a notification arrives while a consumer is busy")
PROPS["C15"] = coop("TestProp", R + ">=2 populated queues of >=2 different kinds are bound (base schedule; populations and submission order are generated)")
PROPS["C17"] = coop("TestProp", R + "an introspection sample overlaps an Add, or >=2 queue kinds are bound")
PROPS["C18"] = coop("TestProp", R + "a TunePool or Restart happened, or idle expiry is configured")
PROPS["C14"] = coop("TestProp", "all lifecycle call sequences up to length 3 (quick) / 5 (thorough) x 16 configuration variants are enumerated exhaustively on the base schedule, plus rapid-generated sequences up to length 30 with generated schedules; distinct = distinct event-history hash; non-trivial = the sequence visits >=3 distinct worker states", quick=(4, 8000), thorough=(16, 20000))
PROPS["C11"] = coop("TestProp", "rapid generates adapter kind x program x schedule x fault plan; each generated case is run to completion and then cut at EVERY adapter-call boundary 1..K (enumerated), each cut followed by a recovery episode (own schedule and fault plan); evaluations = episodes executed; non-trivial = some cut left >=1 delivery unacknowledged, or an Acknowledge was refused; distinct = distinct event-history hash of the full run", quick=(4, 600), thorough=(16, 5000), level="fault_enumeration")
PROPS["C12"] = coop("TestProp", "two generated parts: (a) fidelity: payload type (11 Go types) x values (unicode/escapes/64-bit extremes/NaN/unencodable) x IDs x queue mode pushed through a recording adapter and compared with the harness's own JSON round trip; (b) bad entries (7 kinds) at generated positions among valid stored entries, concurrency 1, generated schedule; non-trivial = a value/ID with non-ASCII/escape/extreme content or a rejected (unencodable) value, or >=1 bad entry among >=2 valid ones; distinct = distinct case", quick=(4, 4000), thorough=(16, 30000))

PROPS["C04"] = coop("TestProp", "two parts. (a) queues: rapid-generated enqueue/dequeue/purge/close/values sequences with bursts across the 1024/1536/2304/... segment boundaries (thorough: past the 100Ki segment cap) and arbitrary int priorities, applied to internal/queues and to a slice / stable-sorted model (differential); (b) worker: generated programs x schedules with concurrency 1 (exact order) and n (prefix at quiescent points); distinct = distinct operation sequence / event-history hash; non-trivial = a queue longer than one segment, a tie between equal priorities, a purge followed by reuse, or >=3 jobs through a worker",
                    quick=(4, 4000), thorough=(16, 15000),
                    extra_parts=[seq("TestC04Queues", quick=(4, 2500), thorough=(16, 20000), fuzz={"targets": ["FuzzC04Queues"], "time": "60s", "timeout": 400})])
PROPS["C04"]["assumptions"] = PROPS["C04"]["assumptions"] + ["queue part: reference models (slice, stable sort by (priority, arrival)) are correct"]
# the FIFO/priority queue types' Len() is what every pending count is made of: the differential queue test (length compared with the model after every step, incl. exactly full and drained segments) is also a part of C17
# C01 quantifies over bursts larger than the FIFO queue's buffer segments: the differential queue test (every dequeued value compared with the slice model,
# nothing lost, duplicated or invented across exactly-full / drained / rewound segments) is also a part of C01 (added after seeded/C01-enqueue-rewinds-full-write-chunk)
PROPS["C01"]["extra_parts"] = [seq("TestC04Queues", quick=(4, 3000), thorough=(16, 10000))]
PROPS["C01"]["assumptions"] = PROPS["C01"]["assumptions"] + ["queue part: reference models (slice, stable sort by (priority, arrival)) are correct"]
PROPS["C17"]["extra_parts"] = [seq("TestC04Queues", quick=(4, 3000), thorough=(16, 10000))]
PROPS["C17"]["assumptions"] = PROPS["C17"]["assumptions"] + ["queue part: reference models (slice, stable sort by (priority, arrival)) are correct"]

PROPS["C19"] = {"engine": "race", "pkg": "vrace", "test": "TestC19", "replay_test": "TestReplay",
                "shards": {"quick": 4, "thorough": 16}, "checks": {"quick": 60, "thorough": 500},
                "wall": {"quick": 900, "thorough": 3300}, "level": "exploration",
                "rule": "rapid generates client programs (2-5 real goroutines, all worker kinds, batches, cancel/purge, lifecycle calls from one goroutine, introspection from all); every program is executed 3 times on the real runtime under the race detector, with random yields inserted before library statements; evaluations = program executions; non-trivial = an execution in which >=2 client goroutines were running while a worker function executed; distinct = distinct (program, repetition)",
                "assumptions": ["the Go race detector judges only the executions it sees", "a report counts if either stack has a frame in the module's library packages",
                                "blocking calls are abandoned after 2 s (counted, never reported)"]}
