# Per-property check specifications used by ./check
def coop(test, rule, quick=(4, 1500), thorough=(16, 20000), level="exploration", **kw):
    d = {"engine": "coop", "pkg": "vharness", "test": test, "replay_test": "TestReplay",
         "shards": {"quick": quick[0], "thorough": thorough[0]},
         "checks": {"quick": quick[1], "thorough": thorough[1]},
         "wall": {"quick": 600, "thorough": 3000},
         "level": level, "rule": rule, "death_is_violation": kw.pop("death_is_violation", False),
         "assumptions": ["coop runtime vrt and its sync/atomic/time shims are faithful (DESIGN.md 3.2, 8)",
                         "instrumenter rewrites every synchronisation operation of the library",
                         "scheduling points are synchronisation operations only (data races are C19's job)"]}
    d.update(kw)
    return d

PROPS = {}

R = "cases are rapid-generated (configuration x client program x schedule); distinct = distinct 64-bit hash of the abstracted event history; non-trivial = "

PROPS["C01"] = coop("TestProp", R + ">=2 jobs outstanding while a control call, cancel, purge or idle-expiry tick happens")
PROPS["C02"] = coop("TestProp", R + "the pool was saturated at a quiescent point and a lifecycle/TunePool/Bind call happened")
PROPS["C03"] = coop("TestProp", R + "a quiescent point had pending jobs with a saturated pool, or a TunePool/cancel/pause overlapped outstanding jobs", death_is_violation=True)
PROPS["C05"] = coop("TestProp", R + ">=2 waiters on one handle or a waiter parked before dispatch")
PROPS["C06"] = coop("TestProp", R + "a barrier call started while an accepted job had not finished, or a PauseAndWait/Stop was issued")
PROPS["C07"] = coop("TestProp", R + ">=2 different outcome kinds (value/error/panic) were executed in the episode")
PROPS["C08"] = coop("TestProp", R + "an empty batch, a rejected/purged item, or >=2 items executed with concurrency >=2")
PROPS["C09"] = coop("TestProp", R + "a Pause/PauseAndWait/Stop returned while >=1 accepted job was still pending")
PROPS["C10"] = coop("TestProp", R + "a Close overlapped dispatch of the same job, a Close returned nil, or a Purge ran with >=2 jobs")
PROPS["C16"] = coop("TestProp", R + "a job was dispatched before its Add returned, or >=2 status samples were taken")
PROPS["C13"] = coop("TestProp", R + ">=2 consumers compete on one adapter, or a notification arrives while a consumer is busy")
PROPS["C15"] = coop("TestProp", R + ">=2 populated queues of >=2 different kinds are bound (base schedule; populations and submission order are generated)")
PROPS["C17"] = coop("TestProp", R + "an introspection sample overlaps an Add, or >=2 queue kinds are bound")
PROPS["C18"] = coop("TestProp", R + "a TunePool or Restart happened, or idle expiry is configured")
