COOP_NOTE = ("Trusted base: Go toolchain, pgregory.net/rapid, x/tools go/packages, the instrumenter tools/instr, the coop runtime vrt and its "
             "sync/atomic/time shims, the harness's recording adapters and reference model. Schedules are explored at synchronisation-operation "
             "granularity; exploration never shows absence.")
def coop_text(what):
    return ("Exploration by property-based testing: rapid generates configuration x multi-goroutine client program x schedule (deviation list / PCT / "
            "random walk over a deterministic cooperative scheduler that owns every synchronisation operation of the instrumented library, virtual clock "
            "included); " + what + " Failures shrink to a minimal replayable JSON case.")
META = {
 "C01": {"technique": "stateful property-based testing with generated schedules (rapid + cooperative deterministic scheduler); history invariant oracle",
         "text": coop_text("the oracle is an invariant over the totally ordered history: each accepted job entered exactly once with its ID/data unless cancelled/purged, rejected/cancelled never entered."), "note": COOP_NOTE},
 "C02": {"technique": "property-based testing with generated schedules; peak in-flight invariant against a sound limit window",
         "text": coop_text("the oracle compares the number of worker-function invocations in progress at every start event with the largest limit in force since the oldest in-flight job was submitted."), "note": COOP_NOTE},
 "C03": {"technique": "property-based testing with generated schedules; exact quiescence/deadlock detection as oracle",
         "text": coop_text("hang = no enabled goroutine (exact, no wall clock); at every quiescent point with a Running worker a free slot and a pending job is a lost wake-up; livelock = step limit with only library goroutines running."), "note": COOP_NOTE},
 "C05": {"technique": "property-based testing with generated schedules; happens-before oracle on handle calls",
         "text": coop_text("every Wait/Result/Err/batch Wait return is compared with the recorded exit (or cancel/purge) of its job; a waiter blocked at deadlock on a finished job is a violation."), "note": COOP_NOTE},
 "C06": {"technique": "property-based testing with generated schedules; barrier-return exactness oracle",
         "text": coop_text("WaitUntilFinished/PauseAndWait/Stop/WaitAndStop returns are checked against the start/finish events of the jobs accepted before the call; a barrier blocked at quiescence is a violation."), "note": COOP_NOTE},
 "C07": {"technique": "property-based testing; oracle = pure function of the job's data recomputed by the harness",
         "text": coop_text("Result()/Err()/batch results/Errs()/metrics are compared with the harness-side outcome assignment (value, error, three panic kinds); any escaping panic is a violation."), "note": COOP_NOTE},
 "C08": {"technique": "property-based testing with generated schedules; multiset + close-once oracle on batch streams",
         "text": coop_text("the multiset read from a batch stream until close is compared with the executed items, NumPending samples with item progress, and double close / never closed / escaping panics are detected exactly."), "note": COOP_NOTE},
 "C09": {"technique": "property-based testing with generated schedules; no-start-after-barrier oracle",
         "text": coop_text("no worker-function start may lie between the return of PauseAndWait/Stop/WaitAndStop and the next Resume/Restart; after plain Pause at most limit minus in-flight; queue order is re-checked across the pause."), "note": COOP_NOTE},
 "C10": {"technique": "property-based testing with generated schedules; return-value law + never-run law + survival",
         "text": coop_text("Close/Purge/queue Close results are checked against the job's start/finish events (cancelled never runs, ErrJobProcessing while running, ErrJobAlreadyClosed after, no limbo at rest, rejected after queue close) and any crash is a violation."), "note": COOP_NOTE},
 "C16": {"technique": "property-based testing with generated schedules; per-job monotone status rank oracle",
         "text": coop_text("status samples from sampler goroutines, from inside the worker function and after Wait are ordered per job and must never decrease; Processing inside the function; Closed after Wait."), "note": COOP_NOTE},
}
NOT_APPLICABLE = {}
ENGINES = [
 {"name": "coop", "path": "src/vrt, src/vharness, tools/instr", "serves_properties": [], "kind_free_text": "rapid-driven property tests on an AST-instrumented copy of the library under a deterministic cooperative scheduler (schedule = generated input)"},
 {"name": "seq", "path": "src/vseq", "serves_properties": [], "kind_free_text": "rapid state-machine tests and go test -fuzz targets on the uninstrumented library"},
 {"name": "race", "path": "src/vrace", "serves_properties": [], "kind_free_text": "rapid-generated concurrent client programs on the real runtime under the Go race detector"},
]
