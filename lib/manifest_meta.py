COOP_NOTE = ("Trusted base: Go toolchain, pgregory.net/rapid, x/tools go/packages, the instrumenter tools/instr, the coop runtime vrt and its "
             "sync/atomic/time shims, the harness's recording adapters and reference model. Schedules are explored at synchronisation-operation "
             "granularity; exploration never shows absence.")
SWEEP_TEXT = (" Before the generated part, small fixed race scenarios (set-up, barrier, racing calls) and the stored minimal failing programs are run "
              "under EVERY schedule with at most one (quick) / two (thorough; complete for the small programs, strided otherwise) deviations from the "
              "base schedule; 30% of the generated programs are race-shaped too (barrier + deviations placed uniformly over the program's real choice points, "
              "one in five of those swept over every single deviation).")
def coop_text(what, sweeps=True):
    return ("Exploration by property-based testing: rapid generates configuration x multi-goroutine client program x schedule (deviation list / PCT / "
            "random walk over a deterministic cooperative scheduler that owns every synchronisation operation of the instrumented library, virtual clock "
            "included); " + what + (SWEEP_TEXT if sweeps else "") + " Failures shrink to a minimal replayable JSON case.")
META = {
 "C01": {"technique": "stateful property-based testing with generated schedules (rapid + cooperative deterministic scheduler); history invariant oracle; plus differential model-based test of the queue types",
         "text": coop_text("the oracle is an invariant over the totally ordered history: each accepted job entered exactly once with its ID/data unless cancelled/purged, rejected/cancelled never entered.") + " Second part: differential (model-based) test of internal/queues against a slice model over generated enqueue/dequeue/purge sequences with bursts across the 1024/1536/... segment boundaries: nothing lost, duplicated or invented.", "note": COOP_NOTE},
 "C02": {"technique": "property-based testing with generated schedules; peak in-flight invariant against a sound limit window",
         "text": coop_text("the oracle compares the number of worker-function invocations in progress at every start event with the largest limit in force since the oldest in-flight job was submitted."), "note": COOP_NOTE},
 "C03": {"technique": "property-based testing with generated schedules; exact quiescence/deadlock detection as oracle",
         "text": coop_text("hang = no enabled goroutine (exact, no wall clock); at every quiescent point with a Running worker a free slot and a pending job is a lost wake-up; livelock = step limit with only library goroutines running."), "note": COOP_NOTE},
 "C05": {"technique": "property-based testing with generated schedules; happens-before oracle on handle calls",
         "text": coop_text("every Wait/Result/Err/batch Wait return is compared with the recorded exit (or cancel/purge) of its job; a waiter blocked at deadlock on a finished job is a violation."), "note": COOP_NOTE},
 "C06": {"technique": "property-based testing with generated schedules; barrier-return exactness oracle",
         "text": coop_text("WaitUntilFinished/PauseAndWait/Stop/WaitAndStop returns are checked against the start/finish events of the jobs accepted before the call; a barrier blocked at quiescence is a violation."), "note": COOP_NOTE},
 "C07": {"technique": "property-based testing; oracle = pure function of the job's data recomputed by the harness",
         "text": coop_text("Result()/Err()/batch results/Errs()/metrics are compared with the harness-side outcome assignment (value, error, four panic kinds incl. a non-string non-error value); any escaping panic is a violation."), "note": COOP_NOTE},
 "C08": {"technique": "property-based testing with generated schedules; multiset + close-once oracle on batch streams",
         "text": coop_text("the multiset read from a batch stream until close is compared with the executed items, NumPending samples with item progress, and double close / never closed / escaping panics are detected exactly."), "note": COOP_NOTE},
 "C09": {"technique": "property-based testing with generated schedules; no-start-after-barrier oracle",
         "text": coop_text("no worker-function start may lie between the return of PauseAndWait/Stop/WaitAndStop and the next Resume/Restart; after plain Pause at most limit minus in-flight; queue order is re-checked across the pause."), "note": COOP_NOTE},
 "C10": {"technique": "property-based testing with generated schedules; return-value law + never-run law + survival",
         "text": coop_text("Close/Purge/queue Close results are checked against the job's start/finish events (cancelled never runs, ErrJobProcessing while running, ErrJobAlreadyClosed after, no limbo at rest, rejected after queue close) and any crash is a violation."), "note": COOP_NOTE},
 "C16": {"technique": "property-based testing with generated schedules; per-job monotone status rank oracle",
         "text": coop_text("status samples from sampler goroutines, from inside the worker function and after Wait are ordered per job and must never decrease; Processing inside the function; Closed after Wait."), "note": COOP_NOTE},
}
META.update({
 "C04": {"technique": "model-based (differential) property-based testing of the queue types + generated schedules for the worker; native go fuzzing in the thorough tier",
         "text": "Exploration by property-based testing in two parts: rapid state-machine sequences (enqueue, bursts across segment boundaries, dequeue, purge, values, close; arbitrary int priorities) are applied to internal/queues and to a slice / stably sorted reference model and compared after every step; " + coop_text("dispatch order of a concurrency-1 worker and the started-prefix of a concurrency-n worker are checked against the (priority, arrival) order of certainly-pending jobs.") + " Thorough tier adds a coverage-guided go test -fuzz campaign on the same property.",
         "note": COOP_NOTE + " Queue part runs on the uninstrumented library."},
 "C11": {"technique": "property-based testing + fault enumeration: generated programs/schedules/fault plans, every adapter-call crash cut enumerated, recovery episode per cut",
         "text": "Fault enumeration on top of property-based testing: " + coop_text("a recording adapter logs every Enqueue/DequeueWithAckId/Acknowledge on the episode's total order; the acknowledgement log law (issued id, at most once, after the worker function returned) is checked on every run; each generated case is re-executed deterministically and cut at EVERY adapter-call boundary, the crash law (accepted => processed or still held) is checked at the cut, and a fresh worker on the recovered adapter contents must drain everything, also under a generated fault plan.", sweeps=False),
         "note": COOP_NOTE + " Crash = the episode stops between two adapter calls; the adapter's durable state is its pending and unacknowledged sets."},
 "C12": {"technique": "property-based testing of an encode/decode round trip against an independent harness-side JSON round trip; bad-entry injection at generated positions",
         "text": coop_text("11 payload types with generated values (unicode, escapes, 64-bit extremes, NaN/Inf, unencodable values) and IDs go through Add on a recording adapter and a consuming worker and are compared (reflect.DeepEqual) with the harness's own Marshal/Unmarshal into the same type; undecodable entries of seven kinds (incl. a valid entry followed by more bytes, two entries glued) are placed at generated positions among valid stored entries and the valid ones must all run once, in order, with an error offered for the bad ones.", sweeps=False),
         "note": COOP_NOTE},
 "C13": {"technique": "property-based testing with generated schedules; exactly-once-overall oracle on a shared recording adapter",
         "text": coop_text("1-3 consumer workers share one recording distributed adapter, notifications are delivered synchronously or by a notifier goroutine, items exist before binding; at rest every item must have been executed exactly once overall and every consumer's Submitted must equal the notifications delivered."),
         "note": COOP_NOTE},
 "C14": {"technique": "bounded-exhaustive enumeration of call sequences + random long sequences against a reference state machine (model-based testing)",
         "text": coop_text("every lifecycle call sequence up to the bound x 12 configuration variants is enumerated on the base schedule and longer sequences are generated with generated schedules; after each call the error value and Status() are compared with the documented state machine, and a probe job submitted at the end must run iff the reference state is Running.", sweeps=False),
         "note": COOP_NOTE + " Exhaustive only for the stated bound and the base schedule."},
 "C15": {"technique": "property-based testing; validity predicate per dispatch replayed on model populations",
         "text": coop_text("2-5 queues of all six kinds are bound in generated order to a paused concurrency-1 worker, generated populations are loaded (and extended at settled points), and every dispatch is checked against the strategy's rule on the model's queue lengths (round-robin cursor, max, min among non-empty) and against the head of the chosen queue."),
         "note": COOP_NOTE + " Runs on the base schedule: the model must know every queue length at every dispatch."},
 "C17": {"technique": "property-based testing with generated schedules; bounds always + exactness at quiescent points against harness accounting; model-based test of the queue types' length",
         "text": coop_text("sampler goroutines read NumPending/NumProcessing/Metrics while producers, dispatcher, purges and completions run; every sample must be within its logical bounds, counters monotone, and at every quiescent point the values must equal the harness's own accounting (per-queue pending, worker pending = sum, Submitted, Completed = Successful + Failed = finished invocations).") + " Second part: the differential test of the FIFO/priority queue types (every step compares Len() with a slice / sorted reference model, incl. exactly full and drained segments) on the uninstrumented code.",
         "note": COOP_NOTE},
 "C18": {"technique": "property-based testing with generated schedules and virtual time; exact live-goroutine accounting",
         "text": coop_text("at every quiescent point idle+busy workers are bounded by the largest configured concurrency, a running idle worker keeps >= 1 idle goroutine, idle workers beyond the minimum are retired after the expiry (virtual clock), the number of live goroutines started by library go statements equals dispatcher + remover + listener + idle + busy, and after Stop it is exactly 0, over generated TunePool sequences and Stop/Restart cycles."),
         "note": COOP_NOTE},
 "C19": {"technique": "property-based generation of concurrent client programs executed under the Go race detector with randomized yields",
         "text": "Exploration: rapid generates multi-goroutine client programs over the whole public API (submissions, handle reads, cancel, purge, lifecycle, introspection); each is executed repeatedly on the real runtime with the race detector, with random yields inserted before library statements to widen the set of interleavings; any report with a library frame is a violation, identified by its (function, access kind) pair.",
         "note": "Trusted base: Go race detector (happens-before, judges only executions it sees), the perturbation instrumenter. Races are not reproducible deterministically; the replay re-runs the reported program 30 times."},
})
NOT_APPLICABLE = {}
ENGINES = [
 {"name": "coop", "path": "src/vrt, src/vharness, tools/instr", "serves_properties": [], "kind_free_text": "rapid-driven property tests on an AST-instrumented copy of the library under a deterministic cooperative scheduler (schedule = generated input)"},
 {"name": "seq", "path": "src/vseq", "serves_properties": [], "kind_free_text": "rapid state-machine tests and go test -fuzz targets on the uninstrumented library"},
 {"name": "race", "path": "src/vrace", "serves_properties": [], "kind_free_text": "rapid-generated concurrent client programs on the real runtime under the Go race detector"},
]
